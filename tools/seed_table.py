#!/usr/bin/env python3
"""Rewrites the table between <!-- SEEDS:BEGIN --> and <!-- SEEDS:END --> in DESIGN.md from seeded/*/meta.json."""
import json, os, re
ROOT = os.path.dirname(os.path.dirname(os.path.abspath(__file__)))
rows = ["| seed | what was changed (needs to manifest) | quick tier | caught by (first obligation) |", "|---|---|---|---|"]
for d in sorted(os.listdir(os.path.join(ROOT, "seeded"))):
    m = json.load(open(os.path.join(ROOT, "seeded", d, "meta.json")))
    notes = m.get("needs_to_manifest", "").replace("\n", " ")
    ch = re.search(r"[Cc]hange:?\**\s*(.*)", notes)
    what = (ch.group(1) if ch else notes)[:170].replace("|", "/")
    det = m.get("detected_by") or {}
    qd = det.get("quick") if isinstance(det, dict) else None
    res = qd["result"] if qd else "not run"
    first = ""
    if qd and qd.get("first"):
        f = qd["first"][0]
        jm = re.search(r"job=(\S+?)\[", f) or re.search(r"job=(\S+)", f)
        om = re.search(r"obligation=(.*)", f)
        first = "%s / %s" % (jm.group(1) if jm else "", (om.group(1).strip() if om else "")[:70])
    td = det.get("thorough") if isinstance(det, dict) else None
    if td:
        res += " (thorough: %s)" % td["result"]
    rows.append("| %s | %s | %s | %s |" % (d, what, res, first.replace("|", "/")))
p = os.path.join(ROOT, "DESIGN.md")
s = open(p).read()
tbl = "\n".join(rows)
s = re.sub(r"<!-- SEEDS:BEGIN -->.*<!-- SEEDS:END -->", "<!-- SEEDS:BEGIN -->\n" + tbl + "\n<!-- SEEDS:END -->", s, flags=re.S)
open(p, "w").write(s)
print(len(rows) - 2, "seeds")
