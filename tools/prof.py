import sys, time, collections
sys.path.insert(0,'/verif')
import warnings; warnings.simplefilter('ignore')
from symx import core
import importlib
pid, pat, secs = sys.argv[1], sys.argv[2], float(sys.argv[3])
tier = sys.argv[4] if len(sys.argv)>4 else 'quick'
mod = importlib.import_module('props.'+pid)
import re
for j in mod.jobs(tier):
    if not re.search(pat, j.name): continue
    t=time.time()
    res, st = core.explore(j.harness, j.params, max_paths=10**9, timeout=secs)
    c = collections.Counter(r.status for r in res)
    ob = sum(len(r.obligations) for r in res)
    bad = [(o.label,o.status) for r in res for o in r.obligations if o.status!='unsat'][:5]
    val = collections.Counter(str(r.validated) for r in res)
    print(j.name, 'paths', st['paths'], 'incomplete', st['incomplete'], 'wall %.1f'%(time.time()-t), 'solver %.1f'%st['solver_s'], dict(c), 'obl', ob, 'bad', bad, 'val', dict(val))
    ex = [r.exc for r in res if r.exc][:3]
    if ex: print('   exc', ex)
    vd = [r.val_detail for r in res if r.validated not in (True,None)][:3]
    if vd: print('   valdetail', vd)

if core.FORK_SITES:
    for k,v in sorted(core.FORK_SITES.items(), key=lambda kv:-kv[1])[:15]: print('  fork', v, k)
