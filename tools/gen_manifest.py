#!/usr/bin/env python3
"""Regenerates MANIFEST.json from the table below (single source of truth for the interface)."""
import json, os
ROOT = os.path.dirname(os.path.dirname(os.path.abspath(__file__)))
TECH = "bounded symbolic execution of the real acnportal functions (symx engine over z3: path forking on symbolic branches, solver decides every obligation over all reals/ints on each path; counterexamples replayed on the unpatched code)"
NOTE = ("Trusted base: CPython 3.12, numpy object-array semantics, pandas alignment on object data, z3 5.1; Python floats are modelled as exact reals "
        "(IEEE rounding outside the claim); the environment stubs listed in evidence.assumptions; bounds listed in evidence.coverage.bounds.")
CLAIMED = {
 "C03": "Inductive one-step obligations (arbitrary valid battery state, all parameters symbolic reals) for ideal / two-stage continuous / stepwise x noise on/off, discharged by z3 on every path of the real charge(); plus constructor/reset refusal and the EVSE->EV->Battery chain. Bounded model checking is the right level: the property is a universally quantified arithmetic fact about one step of a small state machine.",
}
NA_REASON = "check not built yet (work in progress in this session; see DESIGN.md section 4 for the planned harness)"
props = [json.loads(l) for l in open(os.path.join(ROOT, "properties.jsonl"))]
checks, na = [], []
for p in props:
    pid = p["id"]
    if pid in CLAIMED and os.path.exists(os.path.join(ROOT, "props", pid + ".py")):
        checks.append(dict(property_id=pid, quick_cmd="./check %s --tier quick" % pid, thorough_cmd="./check %s --tier thorough" % pid,
                           evidence_file="evidence/%s.json" % pid, replay_cmd_template="./check --replay {path}", engine="symx",
                           level_claimed=dict(category="model_checking", text=CLAIMED[pid], design_ref="DESIGN.md section 4 (%s)" % pid),
                           level_note=NOTE, technique=TECH))
    else:
        na.append(dict(property_id=pid, reason=NA_REASON))
man = dict(version=1, setup_cmd="./bootstrap.sh",
           hooks=dict(guard="ACNPORTAL_VERIF", enable="no source hooks are needed: the checks rebind module globals of the imported /repo modules at run time (symx/env.py)",
                      baseline_off_cmd="cd /repo && /venv/bin/python -m pytest -ra -q -p no:cacheprovider --timeout=900 --continue-on-collection-errors",
                      source_commits=[], add_only=True),
           engines=[dict(name="symx", path="symx/", serves_properties=[c["property_id"] for c in checks],
                         kind_free_text="own shadow symbolic executor for Python over z3 (operator-overloaded symbolic values inside numpy object arrays / pandas object Series; DFS over decision prefixes; concrete replay)")],
           checks=checks, not_applicable=na,
           notes="Solver-based checking only. exit 0 holds within bounds / exit 1 VIOLATION / exit 3 INCONCLUSIVE (never reported as success). Known findings: known_findings.json.")
json.dump(man, open(os.path.join(ROOT, "MANIFEST.json"), "w"), indent=1)
print("claimed", [c["property_id"] for c in checks], "na", len(na))
