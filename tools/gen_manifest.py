#!/usr/bin/env python3
"""Regenerates MANIFEST.json from the table below (single source of truth for the interface)."""
import json, os
ROOT = os.path.dirname(os.path.dirname(os.path.abspath(__file__)))
TECH = "bounded symbolic execution of the real acnportal functions (symx engine over z3: path forking on symbolic branches, solver decides every obligation over all reals/ints on each path; counterexamples replayed on the unpatched code)"
NOTE = ("Trusted base: CPython 3.12, numpy object-array semantics, pandas alignment on object data, z3 5.1; Python floats are modelled as exact reals "
        "(IEEE rounding outside the claim); the environment stubs listed in evidence.assumptions; bounds listed in evidence.coverage.bounds.")
CLAIMED = {
 "C01": "Bounded symbolic model checking of the real Simulator.run()/EventQueue/ChargingNetwork/EVSE code: arrival, departure, estimated-departure and recompute timestamps are symbolic integers, so every interleaving inside the bound (<=3 sessions, horizon<=4, 1-2 stations, 4 scheduler kinds, 3 max_recompute settings) is one solver-decided path; obligations (exactly-once plug/unplug, time/precedence order, connected exactly on [arrival,departure), termination one period after the last event) are discharged by z3 on every path. No induction over the horizon is claimed.",
 "C02": "One-step inductive ledger obligation (arbitrary EV+battery state satisfying charge-init==energy_delivered; all parameters symbolic) for all battery models, plus whole-run obligations on the real Simulator with symbolic event times, pilots (also to vacant stations) and battery parameters: per-session energy = sum(rate*V*T) = battery gain, zero rate when vacant, peak, aggregate current/power, total energy.",
 "C04": "Bounded symbolic model checking of Simulator._update_schedules/_increase_width/update_pilots: every schedule entry is a symbolic real, the shape of each submitted schedule (empty/subset/all, length 1-3, insertion order, beyond the horizon incl. the last period) is forked at every invocation; the oracle is a reference overlay built from the statement; malformed schedules must raise and leave the registry dump valid-equal.",
 "C05": "Bounded symbolic model checking with a recording scheduler querying the real Interface (invocation rule vs symbolic event times and max_recompute in {None,1,2,3}; observed sessions, energies, previous rates/pilots/peak, datetime, infrastructure) and a two-run isolation harness (clean vs in-place-mutating scheduler on the same symbolic inputs; trajectories, network dump and later views valid-equal).",
 "C06": "Symbolic execution of the three real feasibility checkers on symbolic schedules, limits, tolerances (and symbolic coefficients for n=2): on every path the verdict is sandwiched between the phasor definition with the limit scaled by (1-1e-9) and (1+1e-9), written as polynomial inequalities and decided by z3 (nonlinear real arithmetic); interface==network; linear mode conservative on both implementations; constraint-free networks accept everything and run the real schedulers.",
 "C03": "Inductive one-step obligations (arbitrary valid battery state, all parameters symbolic reals) for ideal / two-stage continuous / stepwise x noise on/off, discharged by z3 on every path of the real charge(); plus constructor/reset refusal and the EVSE->EV->Battery chain. Bounded model checking is the right level: the property is a universally quantified arithmetic fact about one step of a small state machine.",
}
CLAIMED["C13"] = "Symbolic execution of the real EVSE/DeadbandEVSE/FiniteRatesEVSE set_pilot/_valid_rate/plugin with symbolic parameters (range ends, deadband end, <=3 unsorted/duplicated rate levels), symbolic pilot and an arbitrary accepted prior pilot, with and without a real EV+Battery in symbolic state: accepted <=> within 1e-3 of the allowable set (z3, linear real arithmetic, every path); rejection leaves pilot/EV/battery valid-equal; every value advertised by the EVSE, the ChargingNetwork cache, Interface and InfrastructureInfo is a member of the set and is accepted by a real set_pilot; occupied plug-in refused."
CLAIMED["C14"] = "Symbolic execution of the real Battery.charge / Linear2StageBattery._charge from an arbitrary valid state with every parameter a symbolic real: ideal law min(pilot power, max power, fill power) over two consecutive steps; two-stage result compared with the independently derived solution of the documented ODE by cases (constant power / crossing at t* / ramp-down), exp as an uninterpreted function whose argument in the code is first proved equal to the law's exponent (pure rational arithmetic, z3 nlsat) and then the closed forms compared; zero pilot, reset, reset(x) vs fresh battery; relations T = 2 x T/2 (and 3 x T/3), monotone in pilot and in period as two symbolic executions with proved ground instances of exp's functional equation (voltage and capacity concrete scale factors there)."
CLAIMED["C11"] = "Bounded symbolic model checking of the real EventQueue (heapq on (timestamp, event) tuples, Event.__lt__, get_current_events loop, public to_json()/from_json()): every operation sequence inside the bound (1-2 initial events through the constructor, then 3 (quick) / 4 (thorough) operations from add Unplug/Plugin/Recompute, get_event, get_current_events(t), JSON round trip, get_last_timestamp, then drain) with symbolic integer timestamps and query times; oracle is a pending-multiset model: returned event is pending and minimal in (time, precedence), get_current_events returns exactly the due events in order and leaves the later ones, len/empty/last timestamp agree, a restored queue continues against the same model."
NA_REASON = "check not built yet (work in progress in this session; see DESIGN.md section 4 for the planned harness)"
props = [json.loads(l) for l in open(os.path.join(ROOT, "properties.jsonl"))]
checks, na = [], []
for p in props:
    pid = p["id"]
    if pid in CLAIMED and os.path.exists(os.path.join(ROOT, "props", pid + ".py")):
        checks.append(dict(property_id=pid, quick_cmd="./check %s --tier quick" % pid, thorough_cmd="./check %s --tier thorough" % pid,
                           evidence_file="evidence/%s.json" % pid, replay_cmd_template="./check --replay {path}", engine="symx",
                           level_claimed=dict(category="model_checking", text=CLAIMED[pid], design_ref="DESIGN.md section 4 (%s)" % pid),
                           level_note=NOTE, technique=TECH))
    else:
        na.append(dict(property_id=pid, reason=NA_REASON))
man = dict(version=1, setup_cmd="./bootstrap.sh",
           hooks=dict(guard="ACNPORTAL_VERIF", enable="no source hooks are needed: the checks rebind module globals of the imported /repo modules at run time (symx/env.py)",
                      baseline_off_cmd="cd /repo && /venv/bin/python -m pytest -ra -q -p no:cacheprovider --timeout=900 --continue-on-collection-errors",
                      source_commits=[], add_only=True),
           engines=[dict(name="symx", path="symx/", serves_properties=[c["property_id"] for c in checks],
                         kind_free_text="own shadow symbolic executor for Python over z3 (operator-overloaded symbolic values inside numpy object arrays / pandas object Series; DFS over decision prefixes; concrete replay)")],
           checks=checks, not_applicable=na,
           notes="Solver-based checking only. exit 0 holds within bounds / exit 1 VIOLATION / exit 3 INCONCLUSIVE (never reported as success). Known findings: known_findings.json.")
json.dump(man, open(os.path.join(ROOT, "MANIFEST.json"), "w"), indent=1)
print("claimed", [c["property_id"] for c in checks], "na", len(na))
