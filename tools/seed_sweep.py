#!/usr/bin/env python3
"""tools/seed_sweep.py [--tier quick|thorough] [--only REGEX] <Cxx>...   (or 'all')

For every seeded change of the given properties: apply patch.diff to a scratch worktree of /repo HEAD (so /repo itself is never
touched and other checks can run meanwhile), run ./check <prop> --tier T with VERIF_REPO pointing at it, and record the outcome in
seeded/<id>/meta.json (detected_by).  The worktree is removed at the end.  (Same result as: git -C /repo apply; ./check; git checkout.)
"""
import json, os, re, subprocess, sys, time

ROOT = os.path.dirname(os.path.dirname(os.path.abspath(__file__)))


def sh(cmd, **kw):
    return subprocess.run(cmd, shell=True, text=True, capture_output=True, **kw)


def main():
    args = sys.argv[1:]
    tier = "quick"
    only = None
    while args and args[0].startswith("--"):
        if args[0] == "--tier":
            tier = args[1]
            args = args[2:]
        elif args[0] == "--only":
            only = args[1]
            args = args[2:]
    props = args
    if props == ["all"]:
        props = sorted({d[:3] for d in os.listdir(os.path.join(ROOT, "seeded"))})
    WT = "/tmp/sweep_wt_%d" % os.getpid()
    sh("git -C /repo worktree prune")
    r = sh("git -C /repo worktree add -q --detach %s HEAD" % WT)
    if r.returncode != 0:
        print("cannot create worktree", r.stderr)
        return 9
    try:
        return sweep(props, tier, only, WT)
    finally:
        sh("git -C /repo worktree remove --force %s" % WT)
        sh("rm -rf /tmp/verif_scratch_out")


def sweep(props, tier, only, WT):
    for pid in props:
        if not os.path.exists(os.path.join(ROOT, "props", pid + ".py")):
            print(pid, "no check")
            continue
        for d in sorted(os.listdir(os.path.join(ROOT, "seeded"))):
            if not d.startswith(pid) or (only and not re.search(only, d)):
                continue
            sd = os.path.join(ROOT, "seeded", d)
            meta = json.load(open(os.path.join(sd, "meta.json")))
            r = sh("git -C %s apply %s/patch.diff" % (WT, sd))
            if r.returncode != 0:
                print(d, "PATCH DOES NOT APPLY", r.stderr[:200])
                meta["detected_by"] = dict(note="patch no longer applies to /repo HEAD")
                json.dump(meta, open(os.path.join(sd, "meta.json"), "w"), indent=1)
                continue
            t0 = time.time()
            try:
                r = sh("VERIF_STOP_ON_VIOLATION=1 VERIF_REPO=%s %s/check %s --tier %s" % (WT, ROOT, pid, tier))
            finally:
                sh("git -C %s checkout -- ." % WT)
            out = r.stdout
            vio = [l for l in out.splitlines() if l.startswith("VIOLATION")]
            inc = [l for l in out.splitlines() if l.startswith("INCONCLUSIVE")]
            obl = [l.strip() for l in out.splitlines() if l.strip().startswith("job=")]
            res = "VIOLATION" if r.returncode == 1 and vio else ("INCONCLUSIVE" if r.returncode == 3 else "MISSED" if r.returncode == 0 else "rc=%d" % r.returncode)
            prev = meta.get("detected_by") if isinstance(meta.get("detected_by"), dict) else {}
            prev[tier] = dict(result=res, check="./check %s --tier %s" % (pid, tier), exit=r.returncode, wall_s=round(time.time() - t0, 1),
                              violations=len(vio), first=[re.sub(r"inputs=.*", "", o)[:200] for o in obl[:3]], inconclusive=[i[:200] for i in inc[:2]])
            meta["detected_by"] = prev
            json.dump(meta, open(os.path.join(sd, "meta.json"), "w"), indent=1)
            print(d, tier, res, "exit=%d" % r.returncode, "%.0fs" % (time.time() - t0), (obl[0][:160] if obl else (inc[0][:160] if inc else "")))
    return 0


if __name__ == "__main__":
    sys.exit(main())
