#!/bin/bash
# usage: tools/try_seed.sh <patch.diff> <Cxx> [extra check args]   -- applies the patch to /repo, runs the check, restores /repo
P="$1"; ID="$2"; shift 2
if ! git -C /repo diff --quiet; then echo "REPO DIRTY - refusing"; exit 9; fi
git -C /repo apply "$P" || { echo "PATCH DOES NOT APPLY"; exit 8; }
/verif/check "$ID" "$@" 2>&1 | grep -E "^(VIOLATION|INCONCLUSIVE|KNOWN|C[0-9]+ tier)" | cut -c1-400
rc=${PIPESTATUS[0]}
git -C /repo checkout -- . 
echo "exit=$rc"
