#!/bin/bash
# usage: tools/try_seed_wt.sh <seed id> [check args]  -- applies seeded/<id>/patch.diff to a private scratch worktree of /repo HEAD,
# runs ./check <prop> with VERIF_REPO pointing at it (so /repo itself is never touched), removes the worktree
ID="$1"; shift; PID="${ID:0:3}"
WT="/tmp/try_wt_${ID}_$$"
git -C /repo worktree add -q --detach "$WT" HEAD || exit 9
git -C "$WT" apply "/verif/seeded/$ID/patch.diff" || { echo "PATCH DOES NOT APPLY"; git -C /repo worktree remove --force "$WT"; exit 8; }
VERIF_REPO="$WT" VERIF_OUT_DIR="/tmp/try_out_${ID}_$$" /verif/check "$PID" "$@" 2>&1 | grep -E "^(VIOLATION|INCONCLUSIVE|KNOWN|C[0-9]+ tier|  job=)" | cut -c1-330 | head -12
git -C /repo worktree remove --force "$WT"; rm -rf "/tmp/try_out_${ID}_$$"
