#!/bin/bash
# usage: tools/confirm_seed.sh <Cxx> <a|b>  -- confirms a seeded change in a scratch worktree of /repo HEAD and files it under /verif/seeded/
PID="$1"; V="$2"; SRC="/tmp/wtout/$PID/$V"; ID="$PID$V"
WT="/tmp/confirm_wt_$ID"; OUT="/verif/seeded/$ID"; LOG="/tmp/confirm_$ID.log"
rm -rf "$WT"; git -C /repo worktree prune; git -C /repo worktree add -q --detach "$WT" HEAD || exit 2
cd "$WT"; export PYTHONPATH="$WT"
res() { echo "$ID $1"; git -C /repo worktree remove --force "$WT"; exit 0; }
/venv/bin/python "$SRC/demo.py" > "$LOG.clean" 2>&1; c=$?
[ $c -eq 0 ] || res "REJECT demo fails on clean tree (rc=$c)"
git apply "$SRC/patch.diff" 2>"$LOG.apply" || res "REJECT patch does not apply to HEAD"
/venv/bin/python "$SRC/demo.py" > "$LOG.patched" 2>&1; p=$?
[ $p -ne 0 ] || res "REJECT demo passes with patch"
/venv/bin/python -m pytest -q -p no:cacheprovider --timeout=900 -x --deselect tests/test_integration.py::TestIntegration > "$LOG.tests" 2>&1; t=$?
summary=$(tail -1 "$LOG.tests")
[ $t -eq 0 ] || res "REJECT tests fail with patch: $summary"
mkdir -p "$OUT"; git diff > "$OUT/patch.diff"; cp "$SRC/demo.py" "$OUT/demo.py"; cp "$SRC/notes.md" "$OUT/notes.md"
python3 - "$PID" "$V" "$OUT" "$summary" "$(tail -3 $LOG.patched | tr '\n' ' ' | cut -c1-300)" <<'PY'
import sys, json
pid, v, out, summary, obs = sys.argv[1:6]
notes = open(out + "/notes.md").read()
json.dump(dict(id=pid+v, breaks_property=pid, origin="independent sub-agent given only the property text and a scratch worktree",
  needs_to_manifest=notes.strip()[:1500],
  confirmed=dict(base="git -C /repo rev-parse HEAD at confirmation time (scratch worktree)", demo_clean="exit 0", demo_patched="exit !=0: " + obs,
                 tests_with_patch=summary, cmd="tools/confirm_seed.sh %s %s" % (pid, v)),
  detected_by=None), open(out + "/meta.json", "w"), indent=1)
PY
res "OK ($summary)"
