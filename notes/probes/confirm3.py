import warnings, numpy as np, json
warnings.simplefilter("ignore")
from datetime import datetime
from acnportal.acnsim import *
from acnportal.acnsim.network import ChargingNetwork, Current
from acnportal.algorithms import *

class Boom(Exception): pass
class Sch(BaseAlgorithm):
    def __init__(self, crash=None):
        super().__init__(); self.max_recompute = 1; self.crash = crash
    def schedule(self, s):
        t = self.interface.current_time
        if self.crash == t:
            self.crash = None; raise Boom()
        return {"A": [t + 1.0], "B": [2.0]}
def mk(crash=None):
    net = ChargingNetwork()
    for s in ["A","B"]: net.register_evse(EVSE(s, 32), 208, 0)
    evs = [EV(0, 2, 5, "A", "s1", Battery(10,0,7)), EV(1, 3, 5, "B", "s2", Linear2StageBattery(10,0,7))]
    return Simulator(net, Sch(crash), EventQueue([PluginEvent(e.arrival, e) for e in evs]), datetime(2020,1,1), period=5, verbose=False)
ref = mk(); ref.run()
print("ref iter", ref.iteration, ref.pilot_signals.tolist())
for c in range(4):
    s = mk(c)
    try: s.run(); print("no crash?")
    except Boom: pass
    s.run()
    same = s.iteration == ref.iteration and np.allclose(s.pilot_signals[:, :ref.iteration], ref.pilot_signals[:, :ref.iteration]) if s.pilot_signals.shape[1] >= ref.iteration else False
    print("crash at", c, "resume iter", s.iteration, "same:", same, s.pilot_signals.tolist())
    # json variant
    s = mk(c)
    try: s.run()
    except Boom: pass
    s2 = Simulator.from_json(s.to_json()); s2.update_scheduler(Sch())
    s2.run()
    ok = s2.iteration == ref.iteration and s2.pilot_signals.shape[1] >= ref.iteration and np.allclose(s2.pilot_signals[:, :ref.iteration], ref.pilot_signals[:, :ref.iteration]) and np.allclose(s2.charging_rates[:, :ref.iteration], ref.charging_rates[:, :ref.iteration])
    print("   json resume iter", s2.iteration, "same:", ok, [type(e).__name__ for e in s2.event_history])
