import warnings, numpy as np
warnings.simplefilter("ignore")
from datetime import datetime
from acnportal.acnsim import *
from acnportal.acnsim.network import ChargingNetwork, Current
from acnportal.algorithms import *
from acnportal.acnsim.models.battery import batt_cap_fn

print("--- C15 batt_cap_fn small request")
V, P = 208, 5
for req, dur in [(0.5, 12), (1.0, 24), (3.0,12), (6.0, 12)]:
    cap, init = batt_cap_fn(req, dur, V, P)
    b = Linear2StageBattery(cap, init, 32*V/1000)
    rates = [b.charge(32, V, P) for _ in range(dur)]
    print(req, dur, "cap", cap, "init", init, "delivered", b._current_charge - init)

print("--- C07 estimator keyed by session vs station")
net = ChargingNetwork()
for s in ["A","B"]: net.register_evse(EVSE(s, 32), 208, 0)
net.add_constraint(Current(["A","B"]), 100, "agg")
# battery with low max power so rampdown bound kicks in: max 2 kW -> 9.6 A
evs = [EV(0, 30, 20, "A", "sess-1", Battery(50, 0, 2.0)), EV(0, 30, 20, "B", "sess-2", Battery(50,0,2.0))]
est = SimpleRampdown()
alg = SortedSchedulingAlgo(first_come_first_served, estimate_max_rate=True, max_rate_estimator=est)
sim = Simulator(net, alg, EventQueue([PluginEvent(0, e) for e in evs]), datetime(2020,1,1), verbose=False)
sim.run()
print("pilots A first 8:", sim.pilot_signals[0,:8]); print("rates A first 8:", sim.charging_rates[0,:8]); print("est bounds", est.upper_bounds)
