import warnings; warnings.simplefilter("ignore")
import z3, time, types
import numpy as np, pandas as pd
from symx import *
SymReal.__deepcopy__ = lambda self, memo: self
from acnportal.acnsim.network import ChargingNetwork, Current
from acnportal.acnsim import *

print("== heapq / EventQueue with symbolic timestamps")
def evq(c):
    ts = [real(f"t{i}") for i in range(3)]
    for t in ts: c.solver.add(t.e >= 0, t.e <= 3, z3.IsInt(t.e))
    q = EventQueue()
    q.add_event(PluginEvent(ts[0], EV(0,1,1,"A","s0",None)))
    q.add_event(UnplugEvent(ts[1], EV(0,1,1,"A","s1",None)))
    q.add_event(RecomputeEvent(ts[2]))
    out = []
    while not q.empty(): out.append(q.get_event())
    # property: nondecreasing ts, ties by precedence
    props = []
    for a, b in zip(out, out[1:]):
        props.append(z3.Or(toz3(a.timestamp) < toz3(b.timestamp), z3.And(toz3(a.timestamp) == toz3(b.timestamp), a.precedence <= b.precedence)))
    return valid(c, z3.And(*props))[0]
res, st = explore(evq); print([r for _, r in res].count(True), len(res), st)

print("== pandas Current algebra with symbolic coefficients")
def cur(c):
    k = real("k"); 
    net = ChargingNetwork()
    for s in ["B","A","C"]: net.register_evse(EVSE(s, 32), 208, 0)
    a = Current({"A": real("a1"), "C": real("a3")})
    b = Current({"C": real("b3"), "B": real("b2")})
    cc = a - b
    print(type(cc), cc.dtype, dict(cc))
    net.add_constraint(cc, real("lim"), "c0")
    net.add_constraint(k * (a + b), 10, "c1")
    print(net.constraint_matrix, net.magnitudes, net.constraint_index)
    return True
try:
    res, st = explore(cur); print(st)
except Exception as e:
    import traceback; traceback.print_exc()
