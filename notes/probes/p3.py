import warnings; warnings.simplefilter("ignore")
import z3, time, types
import numpy as np
from symx import *
from acnportal.acnsim.network import ChargingNetwork, Current
from acnportal.acnsim import *
from acnportal.algorithms.utils import infrastructure_constraints_feasible as icf
from acnportal.acnsim.interface import InfrastructureInfo

def mknet():
    net = ChargingNetwork()
    for s, ang in [("A",30),("B",-90),("C",150)]:
        net.register_evse(EVSE(s, 32), 208, ang)
    net.add_constraint(Current("A") - Current("C"), 20, "a")
    net.add_constraint(Current("B") - Current("A"), 25, "b")
    return net

def feas(c):
    net = mknet()
    S = np.array([[real(f"x{i}_{t}") for t in range(2)] for i in range(3)])
    for x in S.flat: c.solver.add(x.e >= 0, x.e <= 32)
    r = net.is_feasible(S)
    info = InfrastructureInfo(net.constraint_matrix, net.magnitudes, net._phase_angles, net._voltages, net.constraint_index, net.station_ids, net.max_pilot_signals, net.min_pilot_signals, net.allowable_rates, net.is_continuous)
    r = bool(r)
    r2 = icf(S, info)
    r2 = bool(r2)
    return r, r2
t=time.time()
res, st = explore(feas)
for tr, r in res: print(len(tr), [d for d,f in tr if f is not None][-6:], r)
print(st)
