import warnings; warnings.simplefilter("ignore")
import z3, time
from symx import *
from acnportal.acnsim.models.battery import Battery, Linear2StageBattery
import acnportal.acnsim.models.battery as batmod

def ideal(c):
    cap, init, mp, pilot, V, T = [real(n) for n in "cap init mp pilot V T".split()]
    c.solver.add(cap.e > 0, init.e >= 0, init.e <= cap.e, mp.e >= 0, pilot.e >= 0, V.e > 0, T.e > 0)
    b = Battery(cap, init, mp)
    r = b.charge(pilot, V, T)
    prop = z3.And(r.e >= 0, r.e <= pilot.e, b._current_charging_power.e <= mp.e, b._current_charge.e >= init.e, b._current_charge.e <= cap.e)
    return valid(c, prop)

res, st = explore(ideal)
print("ideal", [(r[1][0]) for r in res], st)

def two(c):
    cap, init, mp, pilot, V, T, ts = [real(n) for n in "cap init mp pilot V T ts".split()]
    c.solver.add(cap.e > 0, init.e >= 0, init.e <= cap.e, mp.e > 0, pilot.e >= 0, V.e > 0, T.e > 0, ts.e>=0, ts.e<1)
    b = Linear2StageBattery(cap, init, mp, transition_soc=ts)
    r = b.charge(pilot, V, T)
    if not isinstance(r, SymReal):
        return (True, None)
    # exp axioms instantiated on all exp applications in the terms
    apps = set()
    def collect(e):
        if z3.is_app(e):
            if e.decl().eq(EXP): apps.add(e)
            for ch in e.children(): collect(ch)
    collect(r.e); collect(b._current_charge.e)
    for a in apps:
        x = a.arg(0)
        c.solver.add(a > 0, a >= 1 + x, z3.Implies(x <= 0, a <= 1))
    prop = z3.And(r.e >= 0, r.e <= pilot.e, b._current_charging_power.e <= mp.e, b._current_charge.e >= init.e, b._current_charge.e <= cap.e)
    t=time.time(); v = valid(c, prop); 
    return v[0], (str(v[1])[:300] if v[1] else None), round(time.time()-t,2), len(apps)
z3.set_param("timeout", 60000)
res, st = explore(two)
for tr, r in res: print([d for d,_ in tr], r)
print(st)
