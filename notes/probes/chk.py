from typing import List, Tuple
from acnportal.acnsim.models.battery import Battery
from acnportal.acnsim.models.evse import EVSE, InvalidRateError
from acnportal.acnsim.events import EventQueue, PluginEvent, UnplugEvent, RecomputeEvent, Event

def ideal_bounds(cap: float, init: float, mp: float, pilot: float, v: float, t: float) -> bool:
    """
    pre: 0 < cap <= 1000 and 0 <= init <= cap and 0 <= mp <= 1000 and 0 <= pilot <= 1000 and 1 <= v <= 1000 and 0 < t <= 1000
    post: _
    """
    b = Battery(cap, init, mp)
    r = b.charge(pilot, v, t)
    return 0 <= r and r <= pilot and b._current_charging_power <= mp and init <= b._current_charge <= cap

def evse_accepts(mn: float, mx: float, pilot: float) -> bool:
    """
    pre: 0 <= mn <= mx <= 1000 and -10 <= pilot <= 2000
    post: _
    """
    e = EVSE("A", max_rate=mx, min_rate=mn)
    expect = (mn - 0.001 <= pilot <= mx + 0.001)
    try:
        e.set_pilot(pilot, 208, 5)
        got = True
    except InvalidRateError:
        got = False
    return got == expect and (e.current_pilot == (pilot if got else 0))

def queue_order(ts: List[int], kinds: List[int]) -> bool:
    """
    pre: 1 <= len(ts) <= 4 and len(kinds) == len(ts) and all(0 <= t <= 5 for t in ts) and all(0 <= k <= 2 for k in kinds)
    post: _
    """
    q = EventQueue()
    for t, k in zip(ts, kinds):
        e = Event(t)
        e.precedence = [0, 10, 20][k]
        q.add_event(e)
    out = []
    while not q.empty():
        out.append(q.get_event())
    return all((a.timestamp, a.precedence) <= (b.timestamp, b.precedence) for a, b in zip(out, out[1:]))
