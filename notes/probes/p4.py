import warnings; warnings.simplefilter("ignore")
import z3, time, types
import numpy as real_np
from symx import *
from datetime import datetime
from acnportal.acnsim.network import ChargingNetwork, Current
from acnportal.acnsim import *
from acnportal.algorithms import BaseAlgorithm
import acnportal.acnsim.simulator as simmod

class NPProxy(types.ModuleType):
    def __init__(self): super().__init__("np_proxy")
    def __getattr__(self, k): return getattr(real_np, k)
    def zeros(self, shape, dtype=None):
        a = real_np.empty(shape, dtype=object); a.fill(0); return a
simmod.np = NPProxy()

class Scripted(BaseAlgorithm):
    def __init__(self, table):
        super().__init__(); self.table = table; self.max_recompute = 1
    def schedule(self, sessions):
        t = self.interface.current_time
        return {s: [self.table[(s, t)]] for s in ["A","B"]}

def run(c):
    V = real("V"); T = real("T"); c.solver.add(V.e > 0, T.e > 0)
    net = ChargingNetwork()
    for s in ["A","B"]: net.register_evse(EVSE(s, 32), V, 0)
    net.add_constraint(Current(["A","B"]), 40, "agg")
    evs = []
    for i,(s,a,d) in enumerate([("A",0,3),("B",1,3),("A",3,4)]):
        cap, req, mp = real(f"cap{i}"), real(f"req{i}"), real(f"mp{i}")
        c.solver.add(cap.e > 0, req.e > 0, mp.e >= 0)
        evs.append(EV(a, d, req, s, f"s{i}", Battery(cap, 0, mp)))
    table = {}
    for s in ["A","B"]:
        for t in range(5):
            p = real(f"p_{s}_{t}"); c.solver.add(p.e >= 0, p.e <= 32); table[(s,t)] = p
    sim = Simulator(net, Scripted(table), EventQueue([PluginEvent(e.arrival, e) for e in evs]), datetime(2020,1,1), period=T, verbose=False)
    sim.run()
    # ledger
    ok = []
    for i, ev in enumerate(evs):
        row = sim.network.station_ids.index(ev.station_id)
        tot = 0
        for t in range(ev.arrival, ev.departure):
            tot = tot + sim.charging_rates[row, t] * V / 1000 * (T/60)
        ed = ev.energy_delivered
        ok.append(toz3(ed) == toz3(tot))
        ok.append(toz3(ev._battery._current_charge) == toz3(ed))
        ok.append(toz3(ed) <= req_e(evs[i]) if False else z3.BoolVal(True))
    v = valid(c, z3.And(*ok))
    return v[0], sim.iteration, sim.charging_rates.shape
def req_e(ev): return toz3(ev.requested_energy)
z3.set_param("timeout", 30000)
res, st = explore(run, max_paths=300, timeout=300)
from collections import Counter
print(Counter(str(r) for _, r in res))
print(st)
