"""Probe C17: real TimeOfUseTariff with a symbolic datetime stub + Decimal stub."""
import warnings; warnings.simplefilter("ignore")
import z3, time, json, os, fractions
import symx
from symx import *
SymReal.__hash__ = lambda self: 0
def b(self):
    c = ctx(); i = len(c.trace)
    if i < len(c.prefix):
        d = c.prefix[i]; c.trace.append((d, None)); c.solver.add(self.e if d else z3.Not(self.e)); return d
    st = c.check(self.e); sf = c.check(z3.Not(self.e))
    if st != z3.unsat and sf != z3.unsat: c.trace.append((True, True)); c.solver.add(self.e); return True
    if sf == z3.unsat: c.trace.append((True, False)); c.solver.add(self.e); return True
    c.trace.append((False, False)); c.solver.add(z3.Not(self.e)); return False
symx.SymBool.__bool__ = b
def concretize(x):
    c = ctx()
    while True:
        assert c.check() == z3.sat
        v = c.solver.model().eval(x.e, model_completion=True); iv = int(str(v))
        if bool(x == iv): return iv
SymReal.__index__ = lambda self: concretize(self)

import acnportal.signals.tariffs.tou_tariff as tt
class SDT:
    def __init__(self, month, day, wd, hour, minute, second):
        self.month, self.day, self._wd, self.hour, self.minute, self.second = month, day, wd, hour, minute, second
    def weekday(self): return self._wd
def Dec(x):
    if isinstance(x, SymReal): return x
    return fractions.Fraction(x)
tt.Decimal = Dec
# tuple comparison of (month, day) with SymReal elements works through __eq__/__lt__ forks

DIM = [31,29,31,30,31,30,31,31,30,31,30,31]
def ref_price(doc, month, day, wd, hod):
    """independent oracle: returns (z3 count_valid, z3 price)"""
    md = month*100 + day
    cnt = 0; price = z3.RealVal(-1)
    for s in doc["schedule"]:
        st = tuple(int(v) for v in s["effective_start"].split("-")); en = tuple(int(v) for v in s["effective_end"].split("-"))
        st, en = st[0]*100+st[1], en[0]*100+en[1]
        indate = z3.And(md >= st, md <= en) if st <= en else z3.Or(md >= st, md <= en)
        mask = {"WEEKDAYS": wd <= 4, "WEEKENDS": wd >= 5, "ALL": z3.BoolVal(True)}[s["dow_mask"]]
        v = z3.And(indate, mask)
        cnt = cnt + z3.If(v, 1, 0)
        pr = z3.RealVal(-1)
        for tm, p in sorted(zip(s["times"], s["tariffs"])):
            pr = z3.If(hod >= toz3(float(tm)), toz3(float(p)), pr)
        price = z3.If(v, pr, price)
    return cnt, price

def run(c, name):
    doc = json.load(open(os.path.join(os.path.dirname(tt.__file__), "tariff_schedules", name + ".json")))
    t = tt.TimeOfUseTariff(name)
    month, day, wd, hour, minute, second = [real(n) for n in "month day wd hour minute second".split()]
    for v, lo, hi in [(month,1,12),(wd,0,6),(hour,0,23),(minute,0,59),(second,0,59)]:
        c.solver.add(z3.IsInt(v.e), v.e >= lo, v.e <= hi)
    c.solver.add(z3.IsInt(day.e), day.e >= 1, z3.Or(*[z3.And(month.e == m+1, day.e <= DIM[m]) for m in range(12)]))
    hod = hour.e + minute.e/60 + second.e/3600
    cnt, price = ref_price(doc, month.e, day.e, wd.e, hod)
    try:
        got = t.get_tariff(SDT(month, day, wd, hour, minute, second))
    except ValueError as e:
        ok, m = valid(c, z3.BoolVal(False))
        return ("RAISES", str(e)[:40], {str(d): str(m[d]) for d in m.decls()} if m else None)
    ok, m = valid(c, z3.And(cnt == 1, price == toz3(got)))
    return ok
z3.set_param("timeout", 10000)
from collections import Counter
for name in ["sce_tou_ev_4_march_2019", "pge_a10_tou_aug_2019", "sce_tou_ev_8_oct_2018"]:
    t0=time.time()
    res, st = explore(lambda c: run(c, name), max_paths=20000, timeout=300)
    cnt = Counter(str(r)[:120] for _, r in res)
    print(name, dict(list(cnt.items())[:4]), {k: (round(v,1) if isinstance(v,float) else v) for k,v in st.items()})
