import warnings; warnings.simplefilter("ignore")
import z3, time, types
import numpy as real_np
import symx
from symx import *
SymReal.__deepcopy__ = lambda self, memo: self
SymReal.__hash__ = lambda self: 0
from datetime import datetime
from acnportal.acnsim.network import ChargingNetwork, Current
from acnportal.acnsim import *
from acnportal.algorithms import BaseAlgorithm
import acnportal.acnsim.simulator as simmod

def b(self):
    c = ctx(); i = len(c.trace)
    if i < len(c.prefix):
        d = c.prefix[i]; c.trace.append((d, None)); c.solver.add(self.e if d else z3.Not(self.e)); return d
    st = c.check(self.e); sf = c.check(z3.Not(self.e))
    if st != z3.unsat and sf != z3.unsat: c.trace.append((True, True)); c.solver.add(self.e); return True
    if sf == z3.unsat: c.trace.append((True, False)); c.solver.add(self.e); return True
    c.trace.append((False, False)); c.solver.add(z3.Not(self.e)); return False
symx.SymBool.__bool__ = b

def concretize(x):
    if not isinstance(x, SymReal): return x
    c = ctx()
    while True:
        assert c.check() == z3.sat
        v = c.solver.model().eval(x.e, model_completion=True)
        iv = int(str(v))
        if bool(x == iv): return iv
SymReal.__index__ = lambda self: concretize(self)

class NPProxy(types.ModuleType):
    def __init__(self): super().__init__("np_proxy")
    def __getattr__(self, k): return getattr(real_np, k)
    def zeros(self, shape, dtype=None):
        shape = tuple(concretize(s) for s in shape) if isinstance(shape, tuple) else concretize(shape)
        a = real_np.empty(shape, dtype=object); a.fill(0); return a
simmod.np = NPProxy()

class Rec(BaseAlgorithm):
    def __init__(self):
        super().__init__(); self.max_recompute = None; self.log = []
    def schedule(self, sessions):
        t = self.interface.current_time
        self.log.append(t)
        return {s: [1] for s in ["A","B"]}

H = 3
def run(c):
    net = ChargingNetwork()
    for s in ["A","B"]: net.register_evse(EVSE(s, 32), 208, 0)
    evs = []
    for i, s in enumerate(["A","A"]):
        a = real(f"a{i}"); d = real(f"d{i}")
        c.solver.add(z3.IsInt(a.e), z3.IsInt(d.e), a.e >= 0, d.e > a.e, d.e <= H)
        evs.append(EV(a, d, 1000, s, f"s{i}", Battery(10000, 0, 100)))
    c.solver.add(evs[0].departure.e <= evs[1].arrival.e)
    alg = Rec()
    sim = Simulator(net, alg, EventQueue([PluginEvent(e.arrival, e) for e in evs]), datetime(2020,1,1), period=5, verbose=False)
    sim.run()
    ok = [sim.event_queue.empty(), all(net.get_ev(s) is None for s in ["A","B"])]
    last = z3.If(evs[1].departure.e > evs[0].departure.e, evs[1].departure.e, evs[0].departure.e)
    v = valid(c, z3.And(z3.BoolVal(all(ok)), last + 1 == sim.iteration))
    # connectivity: station A rates nonzero exactly in [a,d)
    row = sim.charging_rates[0]
    conn = []
    for t in range(sim.iteration):
        inside = z3.Or(*[z3.And(e.arrival.e <= t, t < e.departure.e) for e in evs])
        nz = row[t] != 0
        nz = nz.e if isinstance(nz, SymBool) else z3.BoolVal(bool(nz))
        conn.append(inside == nz)
    v2 = valid(c, z3.And(*conn))
    return v[0], v2[0], sim.iteration, [(e.event_type, str(c.solver.model().eval(toz3(e.timestamp))) if False else e.event_type) for e in sim.event_history]
z3.set_param("timeout", 5000)
res, st = explore(run, max_paths=5000, timeout=500)
from collections import Counter
print(Counter(str(r[:3]) for _, r in res)); print(st)
