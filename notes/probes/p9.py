import warnings; warnings.simplefilter("ignore")
import z3, time, math, fractions
import numpy as np
from acnportal.acnsim.network.sites import caltech_acn, jpl_acn, office001_acn

def R(v):
    f = fractions.Fraction(float(v)); return z3.RealVal(f"{f.numerator}/{f.denominator}")

def check(net, groups, caps, basic):
    A = net.constraint_matrix; L = net.magnitudes; th = np.deg2rad(net._phase_angles)
    n = A.shape[1]
    x = [z3.Real(f"x{j}") for j in range(n)]
    s = z3.Solver()
    for j in range(n): s.add(x[j] >= 0, x[j] <= R(net.max_pilot_signals[j]))
    dirs = [math.radians(d) for d in range(0, 360, 30)]
    tol = np.maximum(net.violation_tolerance, net.relative_tolerance * L)
    re = []; im = []
    for i in range(A.shape[0]):
        re_i = z3.Sum([R(A[i,j]*math.cos(th[j])) * x[j] for j in range(n) if A[i,j] != 0])
        im_i = z3.Sum([R(A[i,j]*math.sin(th[j])) * x[j] for j in range(n) if A[i,j] != 0])
        re.append(re_i); im.append(im_i)
        for d in dirs:
            s.add(R(math.cos(d))*re_i + R(math.sin(d))*im_i <= R(L[i] + tol[i]))
    out = {}
    for name, idx in groups.items():
        P = z3.Sum([R(208/1000) * x[j] for j in idx])
        cap = caps[name]
        for it in range(50):
            s.push(); s.add(P > R(cap * (1 + 1e-6))); r = s.check()
            if r == z3.unsat: s.pop(); out[name] = ("holds", it); break
            m = s.model(); xv = np.array([[float(m.eval(x[j], model_completion=True).as_fraction())] for j in range(n)])
            s.pop()
            if net.is_feasible(xv):
                out[name] = ("VIOLATION", float(208/1000*sum(xv[j,0] for j in idx)), cap); break
            # refine: add cut in violated direction for each violated constraint
            z = net.constraint_current(xv)[:,0]
            for i in range(len(L)):
                if abs(z[i]) > L[i] + tol[i]:
                    u = z[i]/abs(z[i])
                    s.add(R(u.real)*re[i] + R(u.imag)*im[i] <= R(L[i] + tol[i]))
        else: out[name] = "no convergence"
    return out

t=time.time()
for basic in [True, False]:
    net = caltech_acn(basic_evse=basic); print("caltech", basic, check(net, {"T": list(range(len(net.station_ids)))}, {"T":150}, basic), round(time.time()-t,1))
    net = office001_acn(basic_evse=basic); print("office", basic, check(net, {"T": list(range(len(net.station_ids)))}, {"T":50}, basic), round(time.time()-t,1))
    net = jpl_acn(basic_evse=basic); ids = net.station_ids
    g = {"T1":[j for j,s in enumerate(ids) if s.startswith("AG-1F")], "T34":[j for j,s in enumerate(ids) if s[:5] in ("AG-3F","AG-4F")]}
    print("jpl", basic, len(ids), check(net, g, {"T1":45,"T34":150}, basic), round(time.time()-t,1))
