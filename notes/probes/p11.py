"""Probe C09: registry-level JSON round trip with symbolic leaves, resume after crash."""
import warnings; warnings.simplefilter("ignore")
import z3, time, types, json
import numpy as real_np
import symx
from symx import *
SymReal.__deepcopy__ = lambda self, memo: self
SymReal.__hash__ = lambda self: 0
def b(self):
    c = ctx(); i = len(c.trace)
    if i < len(c.prefix):
        d = c.prefix[i]; c.trace.append((d, None)); c.solver.add(self.e if d else z3.Not(self.e)); return d
    st = c.check(self.e); sf = c.check(z3.Not(self.e))
    if st != z3.unsat and sf != z3.unsat: c.trace.append((True, True)); c.solver.add(self.e); return True
    if sf == z3.unsat: c.trace.append((True, False)); c.solver.add(self.e); return True
    c.trace.append((False, False)); c.solver.add(z3.Not(self.e)); return False
symx.SymBool.__bool__ = b
from datetime import datetime
from acnportal.acnsim.network import ChargingNetwork, Current
from acnportal.acnsim import *
from acnportal.algorithms import BaseAlgorithm
import acnportal.acnsim.simulator as simmod, acnportal.acnsim.models.battery as batmod
import builtins
def smin(*a):
    xs = list(a[0]) if len(a)==1 else list(a)
    if not any(isinstance(x, SymReal) for x in xs): return builtins.min(xs)
    r = xs[0]
    for x in xs[1:]: r = SymReal(z3.If(toz3(x) < toz3(r), toz3(x), toz3(r)))
    return r
def smax(*a):
    xs = list(a[0]) if len(a)==1 else list(a)
    if not any(isinstance(x, SymReal) for x in xs): return builtins.max(xs)
    r = xs[0]
    for x in xs[1:]: r = SymReal(z3.If(toz3(x) > toz3(r), toz3(x), toz3(r)))
    return r
batmod.min = smin; simmod.max = smax

class NPProxy(types.ModuleType):
    def __init__(self): super().__init__("np_proxy")
    def __getattr__(self, k): return getattr(real_np, k)
    def zeros(self, shape, dtype=None):
        a = real_np.empty(shape, dtype=object); a.fill(0); return a
    def array(self, x, *a, **k):
        r = real_np.array(x, *a, **k)
        return r.astype(object) if r.dtype.kind in 'iuf' else r
simmod.np = NPProxy()

def jstub(o):
    if isinstance(o, (SymReal,)): return o
    if isinstance(o, real_np.ndarray): return jstub(o.tolist())
    if isinstance(o, real_np.integer): return int(o)
    if isinstance(o, real_np.floating): return float(o)
    if isinstance(o, real_np.bool_): return bool(o)
    if isinstance(o, dict): return {str(k): jstub(v) for k, v in o.items()}
    if isinstance(o, (list, tuple)): return [jstub(v) for v in o]
    if o is None or isinstance(o, (bool, int, float, str)): return o
    raise TypeError(type(o))

class Boom(Exception): pass
class Sch(BaseAlgorithm):
    def __init__(self, table, crash=None):
        super().__init__(); self.max_recompute = 1; self.crash = crash; self.table = table
    def schedule(self, s):
        t = self.interface.current_time
        if self.crash is not None and self.crash == t:
            self.crash = None; raise Boom()
        return {"A": [self.table[("A", t)]], "B": [self.table[("B", t)]]}
def mk(c, table, params, crash=None):
    net = ChargingNetwork()
    for s in ["A","B"]: net.register_evse(EVSE(s, 32), 208, 0)
    evs = [EV(0, 2, params[0], "A", "s1", Battery(params[1],0,params[2])), EV(1, 3, params[3], "B", "s2", Battery(params[4],0,params[5]))]
    return Simulator(net, Sch(table, crash), EventQueue([PluginEvent(e.arrival, e) for e in evs]), datetime(2020,1,1), period=5, verbose=False)

def run(c, use_json):
    table = {}
    for s in "AB":
        for t in range(5):
            p = real(f"p{s}{t}"); c.solver.add(p.e >= 0, p.e <= 32); table[(s,t)] = p
    params = [real(f"q{i}") for i in range(6)]
    for q in params: c.solver.add(q.e > 0)
    crash = real("crash"); c.solver.add(z3.IsInt(crash.e), crash.e >= 0, crash.e <= 2)   # last period (3) excluded here: known finding
    ref = mk(c, table, params); ref.run()
    s = mk(c, table, params, crash)
    try: s.run()
    except Boom: pass
    if use_json:
        reg = jstub(s._to_registry()[0])
        s2 = Simulator._from_registry(reg)[0]
        s2.update_scheduler(Sch(table))
        # identity
        ident = all(s2.network.get_ev(st) is None or s2.network.get_ev(st) is s2.ev_history[s2.network.get_ev(st).session_id] for st in "AB")
        s = s2
    else: ident = True
    s.run()
    eqs = [z3.BoolVal(s.iteration == ref.iteration), z3.BoolVal(ident)]
    for i in range(2):
        for t in range(ref.iteration):
            eqs.append(toz3(s.pilot_signals[i,t]) == toz3(ref.pilot_signals[i,t]))
            eqs.append(toz3(s.charging_rates[i,t]) == toz3(ref.charging_rates[i,t]))
    for k in ref.ev_history: eqs.append(toz3(s.ev_history[k].energy_delivered) == toz3(ref.ev_history[k].energy_delivered))
    return valid(c, z3.And(*eqs))[0]
z3.set_param("timeout", 10000)
from collections import Counter
for uj in [False, True]:
    res, st = explore(lambda c: run(c, uj), max_paths=3000, timeout=400)
    print("json" if uj else "plain", Counter(str(r) for _, r in res), {k: (round(v,1) if isinstance(v,float) else v) for k,v in st.items()})
