import warnings, numpy as np
warnings.simplefilter("ignore")
from datetime import datetime
from acnportal import acnsim
from acnportal.acnsim import *
from acnportal.acnsim.network import ChargingNetwork, Current
from acnportal.algorithms import *

print("--- C12: Current algebra composition")
a = Current(["A","B"]); b = Current(["B","C"])
s = 0.25*a
print(type(s).__name__, type(a+b).__name__)
print("a + 0.25*b ->", a + (0.25*b))
print("(0.25*a) - b ->", dict((0.25*a) - b))
print("a - 0.25*b ->", dict(a - 0.25*b))

print("--- C06: Interface on constraint-free network")
net = ChargingNetwork()
net.register_evse(EVSE("A", 32), 208, 0)
class Sch(BaseAlgorithm):
    def schedule(self, s): return {}
sim = Simulator(net, Sch(), EventQueue(), datetime(2020,1,1), verbose=False)
try:
    info = sim.scheduler.interface.infrastructure_info(); print("ok", info.constraint_matrix)
except Exception as e: print("ERR", type(e).__name__, e)
try:
    print("iface.is_feasible", sim.scheduler.interface.is_feasible({"A":[10]}))
except Exception as e: print("ERR", type(e).__name__, e)

print("--- C06: linear mode with mixed sign")
net = ChargingNetwork()
net.register_evse(EVSE("A", 32), 208, 0); net.register_evse(EVSE("B", 32), 208, 120)
net.add_constraint(Current("A") - Current("B"), 10, "d")
S = np.array([[10.0],[10.0]])
print("linear:", net.is_feasible(S, linear=True), "phasor:", net.is_feasible(S))
sim = Simulator(net, Sch(), EventQueue(), datetime(2020,1,1), verbose=False)
from acnportal.algorithms.utils import infrastructure_constraints_feasible as icf
info = sim.scheduler.interface.infrastructure_info()
print("utils linear:", icf(S, info, linear=True), "utils phasor:", icf(S, info))

print("--- C04: schedule beyond horizon at last period")
class Long(BaseAlgorithm):
    def schedule(self, s): return {"A":[1,1,1]}
net = ChargingNetwork(); net.register_evse(EVSE("A", 32), 208, 0)
ev = EV(0, 2, 5, "A", "s1", Battery(10,0,7))
sim = Simulator(net, Long(), EventQueue([PluginEvent(0, ev)]), datetime(2020,1,1), verbose=False)
try:
    sim.run(); print("ok", sim.pilot_signals)
except Exception as e: print("ERR", type(e).__name__, e)

print("--- C03: noisy continuous battery")
np.random.seed(0)
bat = Linear2StageBattery(10, 9.99, 7, noise_level=2)
r = bat.charge(1, 208, 5); print("rate", r, "charge", bat._current_charge)
