import warnings; warnings.simplefilter("ignore")
import z3, time, types
import numpy as real_np
from symx import *
SymReal.__deepcopy__ = lambda self, memo: self
from datetime import datetime
from acnportal.acnsim.network import ChargingNetwork, Current
from acnportal.acnsim import *
from acnportal.algorithms import *
import acnportal.algorithms.sorted_algorithms as sa
import acnportal.acnsim.simulator as simmod

class NPProxy(types.ModuleType):
    def __init__(self): super().__init__("np_proxy")
    def __getattr__(self, k): return getattr(real_np, k)
    def zeros(self, shape, dtype=None):
        if dtype is int: return real_np.zeros(shape, dtype=int)
        a = real_np.empty(shape, dtype=object); a.fill(0); return a
    def isscalar(self, x):
        return isinstance(x, SymReal) or real_np.isscalar(x)
    def isscalar(self, x):
        return isinstance(x, SymReal) or real_np.isscalar(x)
px = NPProxy()
import acnportal.algorithms.postprocessing as pp
pp.np = px
import acnportal.algorithms.postprocessing as pp
pp.np = px
sa.np = px; simmod.np = px

def run(c, algo="greedy"):
    net = ChargingNetwork()
    for s, ang in [("A",0),("B",0)]: net.register_evse(EVSE(s, 0.16), 208, ang)
    lim = real("lim"); c.solver.add(lim.e >= 0, lim.e <= 1)
    net.add_constraint(Current("A") - Current("B"), lim, "c")
    evs = []
    for i,(s,a,d) in enumerate([("A",0,3),("B",0,3)]):
        req, done = real(f"req{i}"), real(f"done{i}")
        c.solver.add(req.e > 0, done.e >= 0, done.e <= req.e)
        ev = EV(a, d, req, s, f"s{i}", Battery(100, 0, 100)); ev._energy_delivered = done; net.plugin(ev)
        evs.append(ev)
    alg = SortedSchedulingAlgo(first_come_first_served) if algo=="greedy" else RoundRobin(first_come_first_served, continuous_inc=0.04)
    sim = Simulator(net, alg, EventQueue([RecomputeEvent(5)]), datetime(2020,1,1), period=5, verbose=False)
    sched = alg.run()
    M = real_np.array([sched[s] for s in net.station_ids])
    feas = net.is_feasible(M)
    ok = [feas.e if isinstance(feas, SymBool) else z3.BoolVal(bool(feas))]
    for ev in evs:
        p = sched[ev.station_id][0]
        rem = (ev.requested_energy - ev.energy_delivered) * 1000 / 208 * 60 / 5
        ok.append(toz3(p) >= 0); ok.append(toz3(p) <= toz3(0.16)); ok.append(toz3(p) <= toz3(rem))
    v = valid(c, z3.And(*ok))
    return v[0]
z3.set_param("timeout", 30000)
from collections import Counter
for algo in ["rr"]:
    res, st = explore(lambda c: run(c, algo), max_paths=5000, timeout=500)
    print(algo, Counter(str(r) for _, r in res)); print(st)
