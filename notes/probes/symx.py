"""PROBE ONLY: minimal path-forking shadow symbolic executor over z3 (reals/ints/bools/complex)."""
import z3, fractions, time, math

class Abort(BaseException):
    pass

class Ctx:
    cur = None
    def __init__(self):
        self.solver = z3.Solver()
        self.prefix = []
        self.trace = []
        self.nchecks = 0
        self.tcheck = 0.0
        self.fresh = 0
        self.side = []  # side constraints (definitions) added during run
    def check(self, *extra):
        t = time.time()
        r = self.solver.check(*extra)
        self.tcheck += time.time() - t
        self.nchecks += 1
        return r

def ctx():
    return Ctx.cur

def toz3(v):
    if isinstance(v, SymReal): return v.e
    if isinstance(v, bool): raise TypeError("bool in arith")
    if isinstance(v, int): return z3.RealVal(v)
    if isinstance(v, float):
        if math.isinf(v) or math.isnan(v): raise TypeError("inf/nan")
        f = fractions.Fraction(v)
        return z3.RealVal(f"{f.numerator}/{f.denominator}")
    if isinstance(v, fractions.Fraction): return z3.RealVal(f"{v.numerator}/{v.denominator}")
    import numpy as np
    if isinstance(v, np.floating): return toz3(float(v))
    if isinstance(v, np.integer): return toz3(int(v))
    raise TypeError(f"cannot lift {type(v)}")

def isnum(v):
    import numpy as np
    return isinstance(v, (int, float, fractions.Fraction, np.floating, np.integer)) and not isinstance(v, bool)

class SymBool:
    def __init__(self, e): self.e = e
    def __bool__(self):
        c = ctx()
        i = len(c.trace)
        if i < len(c.prefix):
            d = c.prefix[i]
        else:
            st = c.check(self.e)
            sf = c.check(z3.Not(self.e))
            if st == z3.sat and sf == z3.sat: d = True; c.trace.append((True, True)); c.solver.add(self.e); return True
            elif st == z3.sat: d = True; c.trace.append((True, False)); c.solver.add(self.e); return True
            elif sf == z3.sat: c.trace.append((False, False)); c.solver.add(z3.Not(self.e)); return False
            else: raise Abort(f"unknown/infeasible {st} {sf}")
        c.trace.append((d, None))
        c.solver.add(self.e if d else z3.Not(self.e))
        return d
    def __and__(self, o): return SymBool(z3.And(self.e, o.e if isinstance(o, SymBool) else z3.BoolVal(bool(o))))
    def __or__(self, o): return SymBool(z3.Or(self.e, o.e if isinstance(o, SymBool) else z3.BoolVal(bool(o))))
    def __invert__(self): return SymBool(z3.Not(self.e))

class SymReal:
    __array_priority__ = 1000
    def __init__(self, e): self.e = e
    def _bin(self, o, f):
        if isinstance(o, complex): return f(SymComplex(self, 0), SymComplex(o.real, o.imag)) if False else NotImplemented
        if isinstance(o, SymComplex): return NotImplemented
        return SymReal(f(self.e, toz3(o)))
    def __add__(self, o):
        if isinstance(o, (complex, SymComplex)): return SymComplex(self, 0) + o
        if isnum(o) and o == 0: return self
        return SymReal(self.e + toz3(o))
    __radd__ = __add__
    def __sub__(self, o):
        if isnum(o) and o == 0: return self
        return SymReal(self.e - toz3(o))
    def __rsub__(self, o): return SymReal(toz3(o) - self.e)
    def __mul__(self, o):
        if isinstance(o, (complex, SymComplex)): return SymComplex(self, 0) * o
        import numpy as np
        if isinstance(o, np.complexfloating): return SymComplex(self, 0) * complex(o)
        if isnum(o):
            if o == 0: return 0
            if o == 1: return self
        try: return SymReal(self.e * toz3(o))
        except TypeError: return NotImplemented
    __rmul__ = __mul__
    def __truediv__(self, o): return SymReal(self.e / toz3(o))
    def __rtruediv__(self, o): return SymReal(toz3(o) / self.e)
    def __neg__(self): return SymReal(-self.e)
    def __pos__(self): return self
    def __abs__(self): return SymReal(z3.If(self.e >= 0, self.e, -self.e))
    def __lt__(self, o): return SymBool(self.e < toz3(o))
    def __le__(self, o): return SymBool(self.e <= toz3(o))
    def __gt__(self, o): return SymBool(self.e > toz3(o))
    def __ge__(self, o): return SymBool(self.e >= toz3(o))
    def __eq__(self, o):
        try: return SymBool(self.e == toz3(o))
        except TypeError: return False
    def __ne__(self, o): return SymBool(self.e != toz3(o))
    __hash__ = None
    def conjugate(self): return self
    def sqrt(self):
        c = ctx(); c.fresh += 1
        m = z3.Real(f"sqrt!{c.fresh}")
        c.solver.add(m >= 0, m * m == self.e)
        return SymReal(m)
    def exp(self):
        return SymReal(EXP(self.e))
    def __repr__(self): return f"SymReal({self.e})"

EXP = z3.Function("exp", z3.RealSort(), z3.RealSort())

class SymComplex:
    __array_priority__ = 1000
    def __init__(self, re, im): self.re, self.im = re, im
    @staticmethod
    def lift(o):
        if isinstance(o, SymComplex): return o
        if isinstance(o, complex): return SymComplex(o.real, o.imag)
        import numpy as np
        if isinstance(o, np.complexfloating): return SymComplex(float(o.real), float(o.imag))
        return SymComplex(o, 0)
    def __add__(self, o):
        o = SymComplex.lift(o); return SymComplex(self.re + o.re, self.im + o.im)
    __radd__ = __add__
    def __mul__(self, o):
        o = SymComplex.lift(o)
        return SymComplex(self.re * o.re - self.im * o.im, self.re * o.im + self.im * o.re)
    __rmul__ = __mul__
    def __abs__(self):
        s = self.re * self.re + self.im * self.im
        if isinstance(s, SymReal): return s.sqrt()
        return math.sqrt(s)

def real(name):
    return SymReal(z3.Real(name))

def explore(fn, max_paths=10000, timeout=600):
    """DFS over all feasible paths. fn() runs under a fresh Ctx; returns list of (trace, result)."""
    results = []
    stack = [[]]
    t0 = time.time()
    stats = dict(paths=0, checks=0, tcheck=0.0)
    while stack:
        prefix = stack.pop()
        c = Ctx(); c.prefix = prefix; Ctx.cur = c
        try:
            r = fn(c)
        except Abort as a:
            r = ("ABORT", str(a))
        stats["paths"] += 1; stats["checks"] += c.nchecks; stats["tcheck"] += c.tcheck
        results.append((c.trace, r))
        # schedule alternatives for forks taken beyond prefix
        for i in range(len(prefix), len(c.trace)):
            d, forked = c.trace[i]
            if forked:
                stack.append([x[0] for x in c.trace[:i]] + [not d])
        if stats["paths"] >= max_paths or time.time() - t0 > timeout:
            stats["incomplete"] = True
            break
    stats["wall"] = time.time() - t0
    return results, stats

def valid(c, prop):
    """Is prop (z3 Bool / SymBool) valid under current path condition? returns (ok, model)"""
    e = prop.e if isinstance(prop, SymBool) else prop
    r = c.check(z3.Not(e))
    if r == z3.unsat: return True, None
    if r == z3.sat: return False, c.solver.model()
    return None, None
