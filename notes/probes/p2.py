import warnings; warnings.simplefilter("ignore")
import z3, time, types
import numpy as real_np
from symx import *
from acnportal.acnsim.models.battery import Battery, Linear2StageBattery
import acnportal.acnsim.models.battery as batmod

def exp_apps(*es):
    apps = []
    seen=set()
    def collect(e):
        if e.get_id() in seen: return
        seen.add(e.get_id())
        if z3.is_app(e):
            if e.decl().eq(EXP): apps.append(e)
            for ch in e.children(): collect(ch)
    for e in es: collect(e)
    return apps
def add_exp_axioms(c, apps):
    for a in apps:
        x = a.arg(0)
        c.solver.add(a > 0, a >= 1 + x, z3.Implies(x <= 0, a <= 1))
    for i,a in enumerate(apps):
        for b in apps[i:]:
            c.solver.add(EXP(a.arg(0)+b.arg(0)) == a*b)
            c.solver.add(z3.Implies(a.arg(0) <= b.arg(0), a <= b))
            c.solver.add(z3.Implies(a.arg(0) == b.arg(0), a == b))

# noise stub
class NPProxy(types.ModuleType):
    def __init__(self): super().__init__("np_proxy")
    def __getattr__(self, k): return getattr(real_np, k)
class Rnd:
    def normal(self, mu, sigma):
        c = ctx(); c.fresh += 1
        return SymReal(z3.Real(f"noise!{c.fresh}"))
px = NPProxy(); px.random = Rnd()
batmod.np = px

def noisy(c):
    cap, init, mp, pilot, V, T, ts, nl = [real(n) for n in "cap init mp pilot V T ts nl".split()]
    c.solver.add(cap.e > 0, init.e >= 0, init.e <= cap.e, mp.e > 0, pilot.e >= 0, V.e > 0, T.e > 0, ts.e>=0, ts.e<1, nl.e > 0)
    b = Linear2StageBattery(cap, init, mp, transition_soc=ts, noise_level=nl)
    r = b.charge(pilot, V, T)
    if not isinstance(r, SymReal): return (True,None)
    add_exp_axioms(c, exp_apps(r.e))
    prop = z3.And(r.e >= 0, r.e <= pilot.e, b._current_charge.e >= init.e, b._current_charge.e <= cap.e)
    v = valid(c, prop)
    return v[0], (str(v[1])[:400] if v[1] else None)
z3.set_param("timeout", 60000)
res, st = explore(noisy)
for tr, r in res: print([d for d,_ in tr], r)
print(st)

print("---- split identity T vs T/2 twice")
def split(c):
    cap, init, mp, pilot, V, T, ts = [real(n) for n in "cap init mp pilot V T ts".split()]
    c.solver.add(cap.e > 0, init.e >= 0, init.e <= cap.e, mp.e > 0, pilot.e > 0, V.e > 0, T.e > 0, ts.e>=0, ts.e<1)
    b1 = Linear2StageBattery(cap, init, mp, transition_soc=ts)
    b2 = Linear2StageBattery(cap, init, mp, transition_soc=ts)
    b1.charge(pilot, V, T)
    b2.charge(pilot, V, T/2); b2.charge(pilot, V, T/2)
    e1, e2 = b1._current_charge, b2._current_charge
    e1 = e1.e if isinstance(e1, SymReal) else toz3(e1); e2 = e2.e if isinstance(e2, SymReal) else toz3(e2)
    apps = exp_apps(e1, e2)
    add_exp_axioms(c, apps)
    t=time.time(); v = valid(c, e1 == e2)
    return v[0], (str(v[1])[:300] if v[1] else None), round(time.time()-t,2), len(apps)
res, st = explore(split, timeout=900)
for tr, r in res: print(len(tr), r)
print(st)
