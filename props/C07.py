"""C07 - the sorting-based algorithms only emit safe schedules.

State-level harness: the real network / EVSEs / EVs / Simulator / Interface are brought into the state just before a scheduler
call (props/alglib.py) with symbolic requested energies, previous pilots, battery power limits (so the actual previous rate
may lie below the pilot: the rampdown branch), constraint limits and estimator state; then the REAL algorithm.run() executes
(preprocessing, sort, bisection / discrete search / round-robin loop, postprocessing) and its output is judged:

  * the real network.is_feasible accepts the schedule (and so does the phasor definition written by the harness),
  * each pilot is in the allowable set of its station's EVSE (real _valid_rate and the set written from the statement),
  * pilot <= remaining demand in amp-periods; pilot <= max(estimator bound for that SESSION, uninterrupted minimum pilot),
  * stations without an active session get 0, every station appears, one entry per station.

Simulation-level corollary: a real Simulator.run() under these algorithms raises no InvalidRateError, emits no
infeasible-schedule warning and delivers no more than requested.
"""
import math
import warnings

from symx import env, core
from symx.core import le, lt, ge, gt, eq, ne, and_, or_, implies, not_, iff, ite, is_sym, sym_max, sym_min
from symx.run import Job
from props import alglib, simlib
from props.simlib import acn, START

FUNCS = alglib.ALG_FUNCS
ASSUMPTIONS = simlib.SIM_ASSUMPTIONS + [
    "continuous EVSEs have max pilot 0.04-0.08 A (quick) / 0.08-0.16 A, one job 0.64 A (thorough) so that the hard-coded eps = 0.01 A bisection has depth <= 3 / 4 (6 in that job); larger max/eps ratios are outside the claim (the bisection step is the same code at every depth); round-robin increments 0.04-0.3 A on those EVSEs (including increments that do not divide the bounds)",
    "finite-rate EVSEs: ClipperCreek levels {0,8,16,24,32}, AeroVironment truncated to {0,6,...,10} (quick) / full {0,6..32} in one thorough job",
    "voltages 208/240/120 V, period 5 min concrete; one scheduler call from an arbitrary reachable pre-state (any accepted previous pilots, any battery power limits, any requested energies with remaining demand > 1e-3 kWh, any stored rampdown bounds in [0, max pilot]); session ids differ from station ids",
    "sorting keys that depend on symbolic energies (laxity, remaining processing time) fork on every comparison: all orders are explored",
]
EXPECT_GLOBAL_TAGS = ("greedy", "rr", "bisection", "discrete_fallback_or_level", "finished_session_gets_0", "vacant_station_gets_0", "sim:ran", "history:foreign", "history:second_call", "history:second_call_after_update")
SLACK = 1e-9 * 100


class CustomEstimator:
    """an UpperBoundEstimatorBase returning arbitrary (symbolic) bounds keyed by session id"""

    def __init__(self, cx, evs_ref):
        from acnportal.algorithms import UpperBoundEstimatorBase

        outer = self

        class Est(UpperBoundEstimatorBase):
            def get_maximum_rates(self, sessions):
                return dict(outer.bounds)

        self.bounds = {}
        self.est = Est()


def h_state(cx, stations, rows, sessions, algo, sort, estimator, uninterrupted, inc, vacate, limit_hi, finished=(), finite_prev=(8,), history=None, period=5):
    env.install(cx)
    alglib.PERIOD = period  # period length in minutes (one job = one process)
    import numpy as np
    import acnportal.algorithms as ALG

    custom = {}
    est_holder = {}

    def factory():
        est = None
        if estimator == "rampdown":
            est = ALG.SimpleRampdown()
        elif estimator == "custom":
            ce = CustomEstimator(cx, None)
            est_holder["c"] = ce
            est = ce.est
        est_holder["e"] = est
        kw = dict(estimate_max_rate=est is not None, max_rate_estimator=est, uninterrupted_charging=uninterrupted)
        if algo == "greedy":
            return ALG.SortedSchedulingAlgo(alglib.sort_fn(sort), **kw)
        return ALG.RoundRobin(alglib.sort_fn(sort), continuous_inc=inc, **kw)

    sc = alglib.build(cx, stations, rows, sessions, factory, limit_hi=limit_hi, unplugged=vacate, sym_battery=(estimator == "rampdown"), finite_prev=finite_prev,
                      warmup=({"second_call": True, "second_call_after_update": "update"}.get(history, False)), foreign=(history == "foreign"))
    if history:
        cx.tag("history:" + history)
    cx.tag(algo)
    n = len(stations)
    est = est_holder["e"]
    maxpil = [float(v) for v in sc.net.max_pilot_signals]
    minpil = [float(v) for v in sc.net.min_pilot_signals]
    stored = {}
    if estimator == "rampdown":
        for k, ev in enumerate(sc.evs):
            b = cx.real("stored_bound%d" % k, lo=0, hi=maxpil[sessions[k][0]])
            est.upper_bounds[ev.session_id] = b
            stored[k] = b
    elif estimator == "custom":
        for k, ev in enumerate(sc.evs):
            b = cx.real("estimator_bound%d" % k, lo=0, hi=2 * maxpil[sessions[k][0]])
            est_holder["c"].bounds[ev.session_id] = b
            stored[k] = b
    # which sessions are finished is a job parameter (the others have more than one period's minimum energy left), so that the
    # finished/unfinished split does not multiply the paths of every job
    act = []
    for k, ev in enumerate(sc.evs):
        j = sessions[k][0]
        if k in finished:
            cx.assume(le(sc.req[k] - ev.energy_delivered, 1e-3))
        else:
            cx.assume(gt(sc.req[k] - ev.energy_delivered, minpil[j] * stations[j][1] / (60 / alglib.PERIOD) / 1000 + 1e-3))
        act.append(sc.net.get_ev(ev.station_id) is ev and k not in finished)
    with warnings.catch_warnings(record=True) as wl:
        warnings.simplefilter("always")
        try:
            out = sc.algo.run()
        except ValueError as e:
            # the algorithm may refuse when even the lower bounds are infeasible (uninterrupted minimum rates are checked by
            # preprocessing, so this is only expected for limits that do not even admit ... nothing): treat as a finding
            cx.check("algorithm_returns_a_schedule", False, note="raised ValueError: %s" % str(e)[:100])
            return
    cx.check("one_entry_per_station", sorted(out.keys()) == sorted(sc.ids) and all(len(v) == 1 for v in out.values()), note=str({k: len(v) for k, v in out.items()}))
    if sorted(out.keys()) != sorted(sc.ids):
        return
    x = [out[sid][0] for sid in sc.ids]
    M = np.empty((n, 1), dtype=object if cx.mode == "sym" else float)
    for j in range(n):
        M[j, 0] = x[j]
    # the network's own check, granted a 1e-9 relative band (its trigonometric constants differ from the algorithm-side checker's in
    # the last bit; constraints are homogeneous, so shrinking the schedule by 1e-9 is the same as widening every limit by 1e-9)
    cx.check("network.is_feasible(schedule)", sc.net.is_feasible(M * (1 - 1e-9)))
    cx.check("feasible_by_definition", alglib.feasible_def(sc, x, 1 + 1e-9))
    occupied = {}
    for k, (j, a, d, ed) in enumerate(sessions):
        occupied[j] = k
    for j in range(n):
        evse = sc.net._EVSEs[sc.ids[j]]
        cx.check("evse_accepts_pilot", evse._valid_rate(x[j]) if is_sym(x[j]) else bool(evse._valid_rate(x[j])), note="station %d (%s)" % (j, stations[j][0]))
        cx.check("pilot_in_allowable_set", alglib.evse_accepts(sc, j, x[j]))
        cx.check("pilot>=0", ge(x[j], 0))
        k = occupied.get(j)
        if k is None or not act[k]:
            cx.check("station_without_active_session_gets_0", eq(x[j], 0), note="station %d" % j)
            cx.tag("vacant_station_gets_0" if (k is None or j in vacate) else "finished_session_gets_0")
            continue
        rem = alglib.remaining_amp_periods(sc, k)
        cx.check("pilot<=remaining_amp_periods", le(x[j], rem + SLACK))
        cx.check("pilot<=evse_max", le(x[j], maxpil[j] + SLACK))
        umin = minpil[j] if uninterrupted else 0
        if estimator is not None:
            bound = est.upper_bounds[sc.evs[k].session_id] if estimator == "rampdown" else stored[k]
            cx.check("pilot<=max(estimator_bound_of_the_session,uninterrupted_minimum)", le(x[j], sym_max(bound, umin) + SLACK))
            if cx.mode == "sym" and cx.feasible() and _possible(cx, lt(bound, sym_min(rem, maxpil[j]) - 0.01)):
                binds = True
        if estimator == "rampdown":
            # the bound the estimator keeps for this session follows the rampdown rule from its stored state
            pp, pr, b0 = sc.prev_pilot[k], sc.evs[k].current_charging_rate, stored[k]
            if sessions[k][1] <= sc.t_now - 1 and sc.t_now - 1 > 0:
                want = ite(gt(pp - pr, 1), pr + 1, ite(lt(b0 - pr, 1), b0 + 1, b0))
                want = sym_min(sym_max(want, 0), maxpil[j])
                cx.check("rampdown_bound_follows_its_rule", eq(bound, want))
    if algo == "greedy" and any(alglib.is_cont(stations[j][0]) for j in range(n)):
        cx.tag("bisection")
    if any(not alglib.is_cont(stations[j][0]) for j in range(n)):
        cx.tag("discrete_fallback_or_level")
    cx.observe("schedule", x)


def _possible(cx, prop):
    import z3

    return prop.symbolic() and cx._check(prop.z3()) == z3.sat


def _decide(cx, prop):
    if not prop.symbolic():
        return prop.weak()
    return bool(core.SymBool(prop.z3()))


def h_sim(cx, stations, rows, n_sess, H, algo, sort, estimator, uninterrupted, inc):
    """simulation-level corollary"""
    env.install(cx)
    import numpy as np
    import acnportal.algorithms as ALG
    from acnportal.acnsim.models.evse import InvalidRateError

    A = acn()
    net = A.ChargingNetwork()
    ids = ["ST-%d" % (len(stations) - j) for j in range(len(stations))]
    for j, (kind, V, ph) in enumerate(stations):
        net.register_evse(alglib.make_evse(ids[j], kind), V, ph)
    limits = []
    for i, row in enumerate(rows):
        L = cx.real("limit%d" % i, lo=0, hi=40)
        limits.append(L)
        net.add_constraint(A.Current({ids[j]: c for j, c in enumerate(row) if c != 0}), L, name="con%d" % i)
    est = ALG.SimpleRampdown() if estimator == "rampdown" else None
    kw = dict(estimate_max_rate=est is not None, max_rate_estimator=est, uninterrupted_charging=uninterrupted)
    alg = ALG.SortedSchedulingAlgo(alglib.sort_fn(sort), **kw) if algo == "greedy" else ALG.RoundRobin(alglib.sort_fn(sort), continuous_inc=inc, **kw)
    evs = []
    for k in range(n_sess):
        r = cx.real("req%d" % k, lo=0, lo_open=True, hi=2)
        mp = cx.real("battery_max_power%d" % k, lo=0, lo_open=True, hi=10)
        evs.append(A.EV(k % 2, H, r, ids[k], "sess-%s" % "zyx"[k], A.Battery(r, 0, mp)))
    sim = A.Simulator(net, alg, A.EventQueue([A.PluginEvent(ev.arrival, ev) for ev in evs]), START, period=alglib.PERIOD, verbose=False)
    with warnings.catch_warnings(record=True) as wl:
        warnings.simplefilter("always")
        try:
            sim.run()
            cx.check("no_invalid_rate_error", True)
        except InvalidRateError as e:
            cx.check("no_invalid_rate_error", False, note=str(e)[:120])
            return
    cx.tag("sim:ran")
    infeasible_warn = [w for w in wl if "infeasible" in str(w.message).lower() or "Invalid schedule" in str(w.message)]
    cx.check("no_infeasible_schedule_warning", len(infeasible_warn) == 0, note=str([str(w.message)[:80] for w in infeasible_warn[:2]]))
    for ev in evs:
        cx.check("energy_delivered<=requested", le(ev.energy_delivered, ev.requested_energy + 1e-9))
    for t in range(sim.iteration):
        col = np.empty((len(ids), 1), dtype=object if cx.mode == "sym" else float)
        for j in range(len(ids)):
            col[j, 0] = sim.pilot_signals[j, t]
        cx.check("applied_pilots_feasible", net.is_feasible(col))
    cx.observe("pilots", sim.pilot_signals[:, : sim.iteration])
    cx.observe("energies", [ev.energy_delivered for ev in evs])


SORTS = ("fcfs", "lcfs", "edf", "llf", "lrpt")
# sessions: (station index, arrival, departure, estimated departure); distinct arrivals / departures so that the concrete keys have no ties
SESS2 = [(0, 0, 9, 7), (1, 1, 6, 8)]
SESS3 = [(0, 0, 9, 7), (1, 1, 6, 8), (2, 0, 12, 5)]
SESS3b = [(2, 1, 5, 5), (0, 0, 8, 9), (1, 0, 30, 30)]


def jobs(tier):
    q = tier == "quick"
    js = []

    def add(name, **p):
        p.setdefault("vacate", ())
        p.setdefault("limit_hi", 100.0)
        p.setdefault("inc", 0.1)
        p.setdefault("finished", ())
        js.append(Job(name, h_state, p, functions=FUNCS, max_paths=200000, timeout=6000,
                      bounds=dict(stations=[s[0] + "@%dV/%d" % (s[1], s[2]) for s in p["stations"]], constraints=p["rows"], sessions=len(p["sessions"]), algorithm=p["algo"], sort=p["sort"],
                                  estimator=p["estimator"], uninterrupted=p["uninterrupted"], continuous_inc=p["inc"], period_min=p.get("period", 5)), cost=p.pop("_cost", 10)))

    c = "C0.08" if q else "C0.16"
    # --- greedy, two stations: continuous + finite, single phase, mixed-sign and sum rows
    c1 = "C0.04" if q else "C0.08"
    mixes2 = [([(c, 208, 0), ("CC", 240, 0)], [(1, 1)], 40.0), ([(c1, 208, 0), (c1, 120, 0)], [(1, 1), (1, -1)], 0.4), ([("AV5", 208, 0), ("CC", 208, 0)], [(1, 1)], 50.0)]
    for mi, (st, rows, lh) in enumerate(mixes2):
        for sort in (SORTS if not q else ((SORTS[mi % 5], SORTS[(mi + 3) % 5]) if mi != 1 else ("lcfs",))):
            for est, unint in ((None, False), ("rampdown", False), ("custom", True), (None, True)) if not q else ((("rampdown", False), ("custom", True)) if mi != 1 else (("rampdown", True),)):
                add("greedy[mix%d,%s,est=%s,unint=%d]" % (mi, sort, est, unint), stations=st, rows=rows, sessions=SESS2, algo="greedy", sort=sort, estimator=est, uninterrupted=unint, limit_hi=lh)
    # --- round robin
    for mi, (st, rows, lh) in enumerate(mixes2):
        for sort in (("fcfs", "llf") if q else SORTS):
            for est, unint, inc in (((None, False, 0.04), ("rampdown", True, 0.07)) if q else ((None, False, 0.04), ("rampdown", True, 0.07), ("custom", False, 0.3), (None, True, 0.1))):
                if q and (mi + (sort == "llf") + (est is None)) % 2:
                    continue
                add("rr[mix%d,%s,est=%s,unint=%d,inc=%s]" % (mi, sort, est, unint, inc), stations=st, rows=rows, sessions=SESS2, algo="rr", sort=sort, estimator=est, uninterrupted=unint, inc=inc, limit_hi=lh)
    # period lengths that do not divide 60 (the A*periods <-> kWh conversions must use the exact ratio 60/period)
    add("greedy[mix0,edf,period=45]", stations=mixes2[0][0], rows=mixes2[0][1], sessions=SESS2, algo="greedy", sort="edf", estimator=None, uninterrupted=False, limit_hi=mixes2[0][2], period=45)
    add("rr[mix2,fcfs,period=7]", stations=mixes2[2][0], rows=mixes2[2][1], sessions=SESS2, algo="rr", sort="fcfs", estimator=None, uninterrupted=False, inc=0.05, limit_hi=mixes2[2][2], period=7)
    if not q:
        add("greedy[mix2,llf,period=40]", stations=mixes2[2][0], rows=mixes2[2][1], sessions=SESS2, algo="greedy", sort="llf", estimator="rampdown", uninterrupted=True, limit_hi=mixes2[2][2], period=40)
        add("rr[mix0,lrpt,period=13]", stations=mixes2[0][0], rows=mixes2[0][1], sessions=SESS2, algo="rr", sort="lrpt", estimator=None, uninterrupted=False, inc=0.03, limit_hi=mixes2[0][2], period=13)
    # an increment whose multiples need more decimals than the increment's own order of magnitude (0.025 -> 0.075)
    st_, rows_, lh_ = mixes2[0]
    add("rr[mix0,fcfs,inc=0.025]", stations=st_, rows=rows_, sessions=SESS2, algo="rr", sort="fcfs", estimator=None, uninterrupted=False, inc=0.025, limit_hi=lh_)
    if not q:
        add("rr[mix1,edf,inc=0.0125]", stations=mixes2[1][0], rows=mixes2[1][1], sessions=SESS2, algo="rr", sort="edf", estimator="rampdown", uninterrupted=True, inc=0.0125, limit_hi=mixes2[1][2])
    # --- three stations, three-phase, mixed-sign constraints; one station vacated / one session finished
    tri = [("C0.08", 208, 30), ("CC", 208, -90), ("AV5", 208, 150)]
    rows3 = [(1, 0, -1), (-1, 1, 0)]
    for algo, sort, est, unint in ((("greedy", "edf", None, False), ("rr", "fcfs", "rampdown", False)) if q else
                                   [(a, s_, e, u) for a in ("greedy", "rr") for s_ in ("fcfs", "edf", "llf") for e, u in ((None, False), ("rampdown", True))]):
        # quick: two sessions on the three-station three-phase network (the third station is vacant)
        add("%s[three-phase,%s,est=%s,unint=%d]" % (algo, sort, est, unint), stations=tri, rows=rows3, sessions=SESS3[:2] if q else SESS3, algo=algo, sort=sort, estimator=est, uninterrupted=unint,
            inc=0.05, limit_hi=40.0, _cost=200)
    add("greedy[finished_session,edf]", stations=[(c, 208, 0), ("CC", 208, 0)], rows=[(1, 1)], sessions=SESS2, algo="greedy", sort="edf", estimator=None, uninterrupted=True, finished=(1,), limit_hi=40.0)
    add("rr[finished_session,fcfs]", stations=[(c, 208, 0), ("AV5", 208, 0)], rows=[(1, 1)], sessions=SESS2, algo="rr", sort="fcfs", estimator="custom", uninterrupted=False, finished=(0,), limit_hi=40.0, inc=0.03)
    # constraint rows with coefficients of magnitude > 1 (turns ratios, doubled feeders), partial occupancy
    add("greedy[coefficients>1,edf]", stations=[(c1, 208, 0), ("CC", 208, 0), ("AV5", 208, 0)], rows=[(1, -2, 1), (2, 1, 0)], sessions=SESS3[:2], algo="greedy", sort="edf", estimator=None,
        uninterrupted=True, limit_hi=60.0)
    add("rr[coefficients>1,fcfs]", stations=[("AV5", 208, 30), ("CC", 208, 150)], rows=[(1, -2), (0.5, 2)], sessions=SESS2, algo="rr", sort="fcfs", estimator=None, uninterrupted=False, limit_hi=60.0)
    # unequal continuous maxima, the first station vacated / its session finished: list position != station index
    add("greedy[unequal_maxima,first_vacated,lcfs]", stations=[("CC", 208, 0), ("C0.08", 208, 0), ("C0.04", 208, 0)], rows=[(1, 1, 1)], sessions=[(0, 0, 9, 7), (1, 1, 6, 8), (2, 0, 12, 5)],
        algo="greedy", sort="lcfs", estimator=None, uninterrupted=False, vacate=(0,), limit_hi=60.0)
    add("greedy[unequal_maxima,first_finished,fcfs]", stations=[("C0.08", 208, 0), ("C0.04", 208, 0)], rows=[(1, 1)], sessions=SESS2, algo="greedy", sort="fcfs", estimator=None, uninterrupted=True,
        finished=(0,), limit_hi=60.0)
    add("greedy[vacated_station,fcfs]", stations=[(c, 208, 0), ("CC", 208, 0), ("AV5", 208, 0)], rows=[(1, 1, 1)], sessions=SESS3b, algo="greedy", sort="fcfs", estimator=None, uninterrupted=False, vacate=(1,), limit_hi=60.0)
    add("rr[vacated_station,lrpt]", stations=[(c, 208, 0), ("CC", 208, 0), ("AV5", 208, 0)], rows=[(1, 1, 1)], sessions=SESS3b, algo="rr", sort="fcfs" if q else "lrpt", estimator="rampdown", uninterrupted=True, vacate=(0,), limit_hi=60.0)
    # history: the judged call is preceded (a) by an unrelated simulation in the same process on a network with the same ids and
    # coefficient rows but other phase angles / voltages / limits, (b) by a call of the same algorithm object on the same
    # network, after which every constraint is updated through update_constraint
    hist = [("greedy", 0, "fcfs", "foreign"), ("rr", 2, "edf", "foreign"), ("greedy", 2, "edf", "second_call_after_update"), ("rr", 0, "lcfs", "second_call_after_update"), ("rr", 2, "fcfs", "second_call")]
    if not q:
        hist += [(a, mi, s_, h) for a in ("greedy", "rr") for mi in (0, 1, 2) for s_ in ("fcfs", "llf") for h in ("foreign", "second_call", "second_call_after_update")]
    for a, mi, s_, h in hist:
        st, rows, lh = mixes2[mi]
        add("%s[mix%d,%s,history=%s]" % (a, mi, s_, h), stations=st, rows=rows, sessions=SESS2, algo=a, sort=s_, estimator=None, uninterrupted=(h == "foreign"), limit_hi=lh, inc=0.05, history=h)
    if not q:
        add("greedy[full AeroVironment + C0.64]", stations=[("C0.64", 208, 0), ("AV", 208, 0)], rows=[(1, 1)], sessions=SESS2, algo="greedy", sort="fcfs", estimator="rampdown", uninterrupted=True, limit_hi=40.0, _cost=300)
        add("rr[full AeroVironment + C0.64]", stations=[("C0.64", 208, 0), ("AV", 208, 0)], rows=[(1, 1)], sessions=SESS2, algo="rr", sort="fcfs", estimator=None, uninterrupted=False, inc=0.07, limit_hi=40.0, _cost=300)
    # --- simulation-level corollary
    sims = [([("C0.04", 208, 0), ("CC", 208, 0)], [(1, 1)], 2, 2, "greedy", "fcfs", None, False, 0.1), ([("C0.04", 208, 0), ("AV5", 208, 0)], [(1, 1)], 2, 2, "rr", "edf", "rampdown", True, 0.03)]
    if not q:
        sims += [([("C0.04", 208, 0), ("CC", 208, 0)], [(1, 1)], 2, 3, "greedy", "fcfs", None, False, 0.1), ([("C0.04", 208, 0), ("AV5", 208, 0)], [(1, 1)], 2, 3, "rr", "edf", "rampdown", True, 0.03)]
        sims += [([("C0.04", 208, 0), ("CC", 208, 0)], [(1, 1)], 2, 3, a, s_, e, u, 0.03) for a, s_, e, u in (("greedy", "llf", "rampdown", False), ("rr", "lrpt", None, True))]
    for st, rows, ns, H, algo, sort, est, unint, inc in sims:
        js.append(Job("sim[%s,%s,%s,est=%s,unint=%d,H=%d]" % (algo, "+".join(s[0] for s in st), sort, est, unint, H), h_sim,
                      dict(stations=st, rows=rows, n_sess=ns, H=H, algo=algo, sort=sort, estimator=est, uninterrupted=unint, inc=inc), functions=FUNCS + simlib.SIM_FUNCS[:4], max_paths=200000, timeout=6000,
                      bounds=dict(stations=[s[0] for s in st], sessions=ns, horizon=H, algorithm=algo, sort=sort, estimator=est, uninterrupted=unint), cost=500))
    return js
