"""C08 - priority allocation: greedy grants the maximum feasible rate; round-robin stops when blocked; uncontrolled = max pilot.

Same state-level scenario as C07 (props/alglib.py: real network / EVSEs / EVs / Simulator / Interface in the state before a
scheduler call, symbolic requested energies, previous pilots and constraint limits).  The REAL algorithm.run() executes and
the output is judged against an independent statement of optimality:

  greedy   sessions are taken in the priority order recomputed by the harness from the sort order's definition (arrival,
           reverse arrival, estimated departure, laxity, remaining processing time - with unequal voltages and max pilots);
           for the k-th session, with the pilots of higher-priority sessions fixed and lower-priority ones at 0, the granted
           pilot is feasible by the phasor definition and NO rate r' in (pilot + eps, upper bound] is feasible (continuous
           EVSE; r' is an extra universally quantified input) / no larger allowable level <= upper bound is feasible
           (finite-rate EVSE).
  rr       the output equals that of a reference written from the statement (raise one level at a time in priority order,
           drop a session when its next level is infeasible at that moment or it has no further level), evaluated with the
           phasor definition on the same symbolic inputs.
  uncontrolled   exactly the active sessions' stations appear, each at its station's maximum pilot.
"""
import math
import warnings
from collections import deque

from symx import env, core
from symx.core import le, lt, ge, gt, eq, ne, and_, or_, implies, not_, iff, ite, is_sym, sym_max, sym_min
from symx.run import Job
from props import alglib, simlib

FUNCS = alglib.ALG_FUNCS + ["acnportal.algorithms.uncontrolled_charging.UncontrolledCharging.schedule"]
ASSUMPTIONS = simlib.SIM_ASSUMPTIONS + [
    "distinct priority keys (assumed pairwise different, as the statement does); no estimator; with uninterrupted charging the lower bounds are those of the documented minimum-rate rule (reference in the harness), otherwise 0; every session has more than one period of its minimum pilot left",
    "continuous EVSE max pilots 0.08-0.64 A so that the eps = 0.01 A bisection has depth <= 3-6; optimality is claimed within that eps, with a 1e-9 relative band on the limits (the algorithm-side checker and the definition are compared in exact arithmetic)",
    "the feasible set of one coordinate is an interval containing the lower bound (convexity of |a + b r| <= L); the obligation does not use this, it quantifies over every alternative rate",
    "round-robin reference: constraint limits within 1e-9 (relative) of the boundary of a trial schedule are excluded (IEEE rounding of concrete level arithmetic decides there)",
    "round-robin reference model: allowable levels of a continuous EVSE are 0, inc, 2 inc, ... up to min(max pilot, remaining amp-periods) (what np.arange(min, max + inc/2, inc) filtered by <= bound denotes)",
]
EXPECT_GLOBAL_TAGS = ("second_call_on_the_same_algorithm_object", "greedy:uninterrupted", "greedy:bisected", "greedy:at_upper_bound", "greedy:level_below_bound", "rr:dropped_while_blocked", "rr:reached_bound", "uncontrolled", "order:symbolic_keys")
EPS = 0.01
BAND = 1e-9


def keys(cx, sc, sort):
    """priority keys from the definitions (smaller = served earlier)"""
    out = []
    maxpil = [float(v) for v in sc.net.max_pilot_signals]
    for k, (j, a, d, ed) in enumerate(sc.sessions):
        rap = alglib.remaining_amp_periods(sc, k)
        if sort == "fcfs":
            out.append(a)
        elif sort == "lcfs":
            out.append(-a)
        elif sort == "edf":
            out.append(ed)
        elif sort == "llf":
            out.append((ed - sc.t_now) - rap / maxpil[j])
        elif sort == "lrpt":
            out.append(-(rap / maxpil[j]))
    return out


def priority_order(cx, ks):
    """indices sorted by key; comparisons of symbolic keys are decided by the solver under the path condition (forks only if the
    path condition leaves the order open)"""
    idx = list(range(len(ks)))
    for a in range(1, len(idx)):  # insertion sort with explicit decisions
        b = a
        while b > 0 and _less(cx, ks[idx[b]], ks[idx[b - 1]]):
            idx[b], idx[b - 1] = idx[b - 1], idx[b]
            b -= 1
    return idx


def _less(cx, x, y):
    p = lt(x, y)
    if not p.symbolic():
        return p.strong() if cx.mode == "conc" else p.weak()
    return bool(core.SymBool(p.z3()))


def min_rate_reference(cx, sc, maxpil, minpil):
    """lower / upper bounds after uninterrupted-charging preprocessing, from its documented rule: in order of remaining time, a
    session gets its EVSE's minimum pilot as lower bound if that does not exceed its remaining demand and is feasible together with
    the minimum rates already admitted; otherwise it is not charged at all (bounds 0)"""
    n = len(sc.stations)
    order = sorted(range(len(sc.sessions)), key=lambda k: sc.sessions[k][2] - sc.t_now)
    rates = [0] * n
    lb, ub = {}, {}
    for k in order:
        j = sc.sessions[k][0]
        rem = alglib.remaining_amp_periods(sc, k)
        trial = list(rates)
        trial[j] = minpil[j]
        if _leq(cx, minpil[j], rem) and _feasible_outside_band(cx, sc, trial):
            rates = trial
            lb[k] = minpil[j]
            ub[k] = sym_max(sym_min(maxpil[j], rem), minpil[j])
        else:
            lb[k], ub[k] = 0, 0
    return lb, ub


def _setup(cx, stations, rows, sessions, sort, factory, limit_hi, warmup=False, foreign=False):
    sc = alglib.build(cx, stations, rows, sessions, factory, limit_hi=limit_hi, sym_battery=False, finite_prev=(8,), warmup=warmup, foreign=foreign)
    if foreign:
        cx.tag("after_an_unrelated_simulation_in_the_same_process")
    if warmup:
        cx.tag("second_call_on_the_same_algorithm_object")
    for k, ev in enumerate(sc.evs):
        j = sessions[k][0]
        minp = float(sc.net.min_pilot_signals[j])
        cx.assume(gt(sc.req[k] - ev.energy_delivered, minp * stations[j][1] / (60 / alglib.PERIOD) / 1000 + 1e-3))
    ks = keys(cx, sc, sort)
    for a in range(len(ks)):
        for b in range(a + 1, len(ks)):
            cx.assume(ne(ks[a], ks[b]))
    if any(is_sym(k_) for k_ in ks):
        cx.tag("order:symbolic_keys", soft=True)
    return sc, ks


def h_greedy(cx, stations, rows, sessions, sort, limit_hi, uninterrupted=False, warmup=False, estimator=None, period=5):
    env.install(cx)
    alglib.PERIOD = period
    import acnportal.algorithms as ALG

    holder = {}

    def factory():
        if estimator == "custom":
            from props.C07 import CustomEstimator

            holder["c"] = CustomEstimator(cx, None)
            return ALG.SortedSchedulingAlgo(alglib.sort_fn(sort), uninterrupted_charging=uninterrupted, estimate_max_rate=True, max_rate_estimator=holder["c"].est)
        return ALG.SortedSchedulingAlgo(alglib.sort_fn(sort), uninterrupted_charging=uninterrupted)

    sc, ks = _setup(cx, stations, rows, sessions, sort, factory, limit_hi, warmup)
    n = len(stations)
    maxpil = [float(v) for v in sc.net.max_pilot_signals]
    minpil = [float(v) for v in sc.net.min_pilot_signals]
    est_bound = {}
    if estimator == "custom":
        # the estimator reports a bound for the first session only (possibly ABOVE the station's maximum pilot) and omits the
        # others (documented: a missing session is unbounded): the station maximum still applies to everybody
        b = cx.real("estimator_bound0", lo=0, hi=2 * maxpil[sessions[0][0]])
        holder["c"].bounds[sc.evs[0].session_id] = b
        est_bound[0] = b
        cx.tag("greedy:estimator")
    out = sc.algo.run()
    x = [out[sid][0] for sid in sc.ids]
    order = priority_order(cx, ks)
    cx.observe("schedule", x)
    if uninterrupted:
        lbs, ubs = min_rate_reference(cx, sc, maxpil, minpil)
        cx.tag("greedy:uninterrupted")
    else:
        lbs = {k: 0 for k in range(len(sessions))}
        ubs = {k: sym_min(maxpil[sessions[k][0]], alglib.remaining_amp_periods(sc, k)) for k in range(len(sessions))}
    for k, b in est_bound.items():
        ubs[k] = sym_min(ubs[k], b)
    cur = [0] * n
    for k in range(len(sessions)):
        cur[sessions[k][0]] = lbs[k]
    for pos, k in enumerate(order):
        j = sessions[k][0]
        ub = ubs[k]
        cur[j] = x[j]
        label = "session#%d(priority %d)" % (k, pos)
        cx.check(label + ":granted_rate_feasible_given_higher_priority_grants", alglib.feasible_def(sc, list(cur), 1 + BAND))
        cx.check(label + ":within_bounds", and_(or_(ge(x[j], lbs[k]), eq(x[j], 0)), le(x[j], ub + 1e-9)))
        lv = alglib.levels(stations[j][0])
        if lv is None:
            alt = cx.real("alternative_rate%d" % k, lo=0, hi=maxpil[j])
            trial = list(cur)
            trial[j] = alt
            cx.check(label + ":no_larger_rate_is_feasible", implies(and_(gt(alt, x[j] + EPS), le(alt, ub)), not_(alglib.feasible_def(sc, trial, 1 - BAND))))
            if _possible(cx, lt(x[j], ub - EPS)):
                cx.tag("greedy:bisected", soft=True)
            if _possible(cx, ge(x[j], ub)):
                cx.tag("greedy:at_upper_bound", soft=True)
        else:
            cx.check(label + ":granted_rate_is_a_level", or_(*[eq(x[j], v) for v in lv]))
            for v in lv:
                if v < lbs[k]:
                    continue
                trial = list(cur)
                trial[j] = v
                cx.check(label + ":no_larger_level_is_feasible", implies(and_(gt(v, x[j]), le(v, ub)), not_(alglib.feasible_def(sc, trial, 1 - BAND))))
            if _possible(cx, lt(x[j] + 1, sym_min(ub, max(lv)))):
                cx.tag("greedy:level_below_bound", soft=True)
    # stations without a session
    for j in range(n):
        if j not in [s[0] for s in sessions]:
            cx.check("vacant_station_gets_0", eq(x[j], 0))


def _possible(cx, prop):
    import z3

    if cx.mode != "sym":
        return False
    if not prop.symbolic():
        return prop.weak()
    return cx._check(prop.z3()) == z3.sat


def h_rr(cx, stations, rows, sessions, sort, inc, limit_hi, warmup=False, foreign=False):
    env.install(cx)
    import acnportal.algorithms as ALG

    sc, ks = _setup(cx, stations, rows, sessions, sort, lambda: ALG.RoundRobin(alglib.sort_fn(sort), continuous_inc=inc), limit_hi, warmup, foreign)
    n = len(stations)
    maxpil = [float(v) for v in sc.net.max_pilot_signals]
    out = sc.algo.run()
    x = [out[sid][0] for sid in sc.ids]
    cx.observe("schedule", x)
    order = priority_order(cx, ks)
    # ---- reference from the statement
    lev = {}
    for k, (j, a, d, ed) in enumerate(sessions):
        ub = sym_min(maxpil[j], alglib.remaining_amp_periods(sc, k))
        base = alglib.levels(stations[j][0])
        if base is None:
            base = [i * inc for i in range(int(round(maxpil[j] / inc + 0.5)) + 1) if i * inc < maxpil[j] + inc / 2]
        lev[k] = [v for v in base if _leq(cx, v, ub)]
    ref = [0] * n
    idx = {}
    for k in lev:
        ref[sessions[k][0]] = lev[k][0] if lev[k] else 0
        idx[k] = 0
    q = deque(order)
    dropped_blocked = False
    while q:
        k = q.popleft()
        j = sessions[k][0]
        if idx[k] < len(lev[k]) - 1:
            trial = list(ref)
            trial[j] = lev[k][idx[k] + 1]
            if _feasible_outside_band(cx, sc, trial):
                ref = trial
                idx[k] += 1
                q.append(k)
            else:
                dropped_blocked = True
        else:
            cx.tag("rr:reached_bound")
    if dropped_blocked:
        cx.tag("rr:dropped_while_blocked")
    for j in range(n):
        cx.check("round_robin_output=reference[station %d]" % j, eq(x[j], ref[j]))
    cx.check("reference_schedule_feasible", alglib.feasible_def(sc, ref, 1 + BAND))


def _feasible_outside_band(cx, sc, trial):
    """feasibility of a trial schedule by the definition.  With concrete levels the implementation evaluates the phasor sums in
    IEEE arithmetic (different association than the definition), so limits within 1e-9 (relative) of the boundary are excluded
    from the claim: there the two evaluations may legitimately disagree by rounding"""
    strict = alglib.feasible_def(sc, trial, 1 - BAND)
    loose = alglib.feasible_def(sc, trial, 1 + BAND)
    cx.assume(or_(strict, not_(loose)))
    return _holds(cx, strict)


def _leq(cx, v, ub):
    p = le(v, ub)
    if not p.symbolic():
        return v <= ub if cx.mode == "conc" else p.weak()
    return bool(core.SymBool(p.z3()))


def _holds(cx, prop):
    if not prop.symbolic():
        return prop.weak()
    return bool(core.SymBool(prop.z3()))


def h_uncontrolled(cx, stations, sessions, finished, vacate):
    env.install(cx)
    import acnportal.algorithms as ALG

    sc = alglib.build(cx, stations, [], sessions, lambda: ALG.UncontrolledCharging(), sym_battery=False, finite_prev=(8,), unplugged=vacate)
    for k, ev in enumerate(sc.evs):
        if k in finished:
            cx.assume(le(sc.req[k] - ev.energy_delivered, 1e-3))
        else:
            cx.assume(gt(sc.req[k] - ev.energy_delivered, 1e-3))
    out = sc.algo.run()
    maxpil = [float(v) for v in sc.net.max_pilot_signals]
    want = {}
    for k, (j, a, d, ed) in enumerate(sessions):
        if k not in finished and j not in vacate:
            want[sc.ids[j]] = maxpil[j]
    cx.check("exactly_the_active_stations_appear", sorted(out.keys()) == sorted(want.keys()), note="%s vs %s" % (sorted(out.keys()), sorted(want.keys())))
    for sid, v in want.items():
        if sid in out:
            cx.check("one_period_at_the_station_maximum", len(out[sid]) == 1 and bool(out[sid][0] == v), note="%s -> %s" % (sid, out[sid]))
    cx.tag("uncontrolled")
    cx.observe("n", len(out))


SORTS = ("fcfs", "lcfs", "edf", "llf", "lrpt")
SESS2 = [(0, 0, 9, 7), (1, 1, 6, 8)]
SESS3 = [(0, 0, 9, 7), (1, 1, 6, 8), (2, 0, 12, 5)]


def jobs(tier):
    q = tier == "quick"
    js = []
    c = "C0.08" if q else "C0.16"
    c2 = "C0.04" if q else "C0.08"
    nets = {
        "cont+cc": ([(c, 208, 0), ("CC", 240, 0)], [(1, 1)], 40.0),
        "cont+cont(2 rows)": ([(c2, 208, 0), (c, 120, 0)], [(1, 1), (1, -1)], 0.4),
        "av5+cc(mixed sign)": ([("AV5", 208, 0), ("CC", 120, 0)], [(1, 1), (-1, 1)], 50.0),
        # greedy optimality on three stations / three phases makes z3's nonlinear core answer `unknown` (a quadratic cone per row with a
        # universally quantified alternative rate): claimed on the two-station three-phase network only
        "three-phase": ([(c, 208, 30), ("CC", 208, -90)], [(1, -1), (1, 1)], 40.0),
    }
    tri3 = ([("C0.08", 208, 30), ("CC", 208, -90), ("AV5", 240, 150)], [(1, 0, -1), (-1, 1, 0)], 40.0)
    for name, (st, rows, lh) in nets.items():
        sess = SESS3 if len(st) == 3 else SESS2
        if q and len(st) == 3:
            sess = SESS3[:2]
        for sort in (SORTS if not q else {"cont+cc": ("fcfs", "llf"), "cont+cont(2 rows)": ("lrpt",), "av5+cc(mixed sign)": ("lcfs", "edf"), "three-phase": ("edf",)}[name]):
            js.append(Job("greedy[%s,%s]" % (name, sort), h_greedy, dict(stations=st, rows=rows, sessions=sess, sort=sort, limit_hi=lh), functions=FUNCS, max_paths=200000, timeout=6000,
                          bounds=dict(stations=[s[0] + "@%dV/%d" % (s[1], s[2]) for s in st], constraints=rows, sessions=len(sess), sort=sort, eps=EPS), cost=100 if len(st) == 3 else 20))
        if name in ("av5+cc(mixed sign)", "cont+cc"):
            for sort in (("edf", "lcfs") if q else SORTS):
                js.append(Job("greedy_uninterrupted[%s,%s]" % (name, sort), h_greedy, dict(stations=st, rows=rows, sessions=sess, sort=sort, limit_hi=lh, uninterrupted=True), functions=FUNCS,
                              max_paths=200000, timeout=6000, bounds=dict(stations=[s[0] + "@%dV/%d" % (s[1], s[2]) for s in st], constraints=rows, sessions=len(sess), sort=sort, uninterrupted=True), cost=30))
        for sort, inc in ((("fcfs", 0.03), ("llf", 0.05)) if q else [(s_, i_) for s_ in SORTS for i_ in (0.03, 0.1)]):
            if q and name == "three-phase" and sort == "llf":
                continue
            js.append(Job("rr[%s,%s,inc=%s]" % (name, sort, inc), h_rr, dict(stations=st, rows=rows, sessions=sess, sort=sort, inc=inc, limit_hi=lh), functions=FUNCS, max_paths=200000, timeout=6000,
                          bounds=dict(stations=[s[0] + "@%dV/%d" % (s[1], s[2]) for s in st], constraints=rows, sessions=len(sess), sort=sort, continuous_inc=inc), cost=100 if len(st) == 3 else 20))
    if not q:
        for sort, inc in (("fcfs", 0.03), ("edf", 0.05)):
            js.append(Job("rr[three-phase x3,%s,inc=%s]" % (sort, inc), h_rr, dict(stations=tri3[0], rows=tri3[1], sessions=SESS3, sort=sort, inc=inc, limit_hi=tri3[2]), functions=FUNCS, max_paths=200000, timeout=6000,
                          bounds=dict(stations=[s_[0] for s_ in tri3[0]], constraints=tri3[1], sessions=3, sort=sort, continuous_inc=inc), cost=300))
    # a second call on the same algorithm object after other sessions used the same stations
    st, rows, lh = nets["av5+cc(mixed sign)"]
    for sort, wu in ((("fcfs", True), ("fcfs", "update")) if q else (("fcfs", True), ("lrpt", True), ("fcfs", "update"), ("lrpt", "update"))):
        tagw = "" if wu is True else ",network_updated_between"
        js.append(Job("rr_second_call[av5+cc,%s%s]" % (sort, tagw), h_rr, dict(stations=st, rows=[(1, 1)], sessions=SESS2, sort=sort, inc=0.05, limit_hi=lh, warmup=wu), functions=FUNCS, max_paths=200000, timeout=6000,
                      bounds=dict(stations=[s_[0] for s_ in st], sessions=2, sort=sort, calls="warm-up call for two other sessions (0.2-0.7 kWh), then the judged call" + ("" if wu is True else "; every constraint updated in between")), cost=60))
        if wu is True or not q:
            js.append(Job("greedy_second_call[av5+cc,%s%s]" % (sort, tagw), h_greedy, dict(stations=st, rows=[(1, 1)], sessions=SESS2, sort=sort, limit_hi=lh, warmup=wu), functions=FUNCS, max_paths=200000, timeout=6000,
                          bounds=dict(stations=[s_[0] for s_ in st], sessions=2, sort=sort, calls="warm-up call for two other sessions (0.2-0.7 kWh), then the judged call" + ("" if wu is True else "; every constraint updated in between")), cost=60))
    # the judged round-robin call comes after an unrelated simulation (same station ids and kinds, other phases, a coarser increment)
    for net_name, sort, inc_ in ((("cont+cc", "fcfs", 0.01),) if q else (("cont+cc", "fcfs", 0.01), ("cont+cont(2 rows)", "edf", 0.02))):
        if net_name in nets:
            st_, rows_, lh_ = nets[net_name]
            js.append(Job("rr_after_other_simulation[%s,%s,inc=%s]" % (net_name, sort, inc_), h_rr, dict(stations=st_, rows=rows_, sessions=SESS2, sort=sort, inc=inc_, limit_hi=lh_, foreign=True), functions=FUNCS, max_paths=200000, timeout=6000,
                          bounds=dict(stations=[s_[0] for s_ in st_], constraints=rows_, sessions=2, sort=sort, continuous_inc=inc_, history="another RoundRobin object with increment x4 scheduled a twin network first"), cost=60))
    # a period length that does not divide 60: bounds in A*periods and the laxity / processing-time keys use the exact ratio 60/period
    for net_name, sort, per in ((("cont+cc", "llf", 45),) if q else (("cont+cc", "llf", 45), ("cont+cc", "lrpt", 7), ("cont+cont(2 rows)", "fcfs", 40))):
        if net_name in nets:
            st_, rows_, lh_ = nets[net_name]
            js.append(Job("greedy[%s,%s,period=%d]" % (net_name, sort, per), h_greedy, dict(stations=st_, rows=rows_, sessions=SESS2, sort=sort, limit_hi=lh_, period=per), functions=FUNCS, max_paths=200000, timeout=6000,
                          bounds=dict(stations=[s_[0] for s_ in st_], constraints=rows_, sessions=2, sort=sort, period_min=per), cost=60))
    # a rate estimator that bounds one session (possibly above the station maximum) and omits the other
    for net_name, sort in ((("cont+cc", "fcfs"),) if q else (("cont+cc", "fcfs"), ("cont+cc", "lcfs"))):
        if net_name in nets:
            st_, rows_, lh_ = nets[net_name]
            js.append(Job("greedy[%s,%s,estimator]" % (net_name, sort), h_greedy, dict(stations=st_, rows=rows_, sessions=SESS2, sort=sort, limit_hi=lh_, estimator="custom"), functions=FUNCS, max_paths=200000, timeout=6000,
                          bounds=dict(stations=[s_[0] for s_ in st_], constraints=rows_, sessions=2, sort=sort, estimator="custom: bound for session 0 in [0, 2 x station max], session 1 omitted"), cost=60))
    # the warm-up call is a round-robin call, the judged call a greedy one by ANOTHER algorithm object sharing the network
    js.append(Job("greedy_after_rr_on_shared_network[av5+cc,fcfs]", h_greedy, dict(stations=st, rows=[(1, 1)], sessions=SESS2, sort="fcfs", limit_hi=lh, warmup="rr_other_object"), functions=FUNCS, max_paths=200000, timeout=6000,
                  bounds=dict(stations=[s_[0] for s_ in st], sessions=2, sort="fcfs", calls="a RoundRobin object schedules two other sessions on the network first; then a fresh greedy algorithm is judged"), cost=60))
    for fin, vac in (((), ()), ((1,), ()), ((), (0,))) if q else [((), ()), ((1,), ()), ((), (0,)), ((0, 2), ()), ((2,), (1,))]:
        js.append(Job("uncontrolled[finished=%s,vacated=%s]" % (fin, vac), h_uncontrolled, dict(stations=[("C32", 208, 0), ("CC", 240, 0), ("AV5", 120, 0)], sessions=SESS3, finished=fin, vacate=vac),
                      functions=FUNCS, bounds=dict(stations=3, sessions=3, finished=fin, vacated=vac)))
    return js
