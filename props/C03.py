"""C03 - physical bounds: 0 <= actual rate <= pilot, power <= max power, charge never decreases / never exceeds capacity.

Unit level (inductive step): the real Battery / Linear2StageBattery objects are constructed in an ARBITRARY valid
pre-state (all parameters symbolic reals) and one real `charge()` is executed symbolically; the post-state is shown to
be a valid pre-state again, so one step covers pilot sequences of any length.
Simulation level: see props/simlib.py (rates <= pilots entrywise in whole runs).
"""
from symx import env
from symx.core import le, lt, ge, gt, eq, and_, or_, implies, not_
from symx.run import Job
from props import simlib

FUNCS = [
    "acnportal.acnsim.models.battery.Battery.__init__/charge/reset",
    "acnportal.acnsim.models.battery.Linear2StageBattery.__init__/charge/_charge/_charge_stepwise",
    "acnportal.acnsim.models.ev.EV.charge",
    "acnportal.acnsim.models.evse.EVSE.set_pilot",
]

ASSUMPTIONS = [
    "Python floats modelled as exact reals (IEEE rounding outside the claim)",
    "np.random.normal modelled as an arbitrary real (any noise draw)",
    "np.exp modelled as an uninterpreted function with ground facts exp>0, exp(x)>=1+x, monotone, exp(x)<=1 for x<=0 (sound over-approximation)",
    "builtins min/max/abs in battery.py evaluated as if-then-else terms (no fork)",
    "pre-state: capacity>0, 0<=charge<=capacity, max_power>=0 (>0 two-stage), 0<=transition_soc<1, pilot>=0, voltage>0, period>0",
]


def make_battery(cx, kind, noise):
    import acnportal.acnsim.models.battery as B

    cap = cx.real("capacity", lo=0, lo_open=True)
    charge = cx.real("charge", lo=0)
    cx.assume(le(charge, cap))
    # the state reached by an arbitrary history: constructed with some other initial charge, then brought to
    # `charge` through the public reset(); so current charge and initial charge are independent
    init0 = cx.real("init_charge", lo=0)
    cx.assume(le(init0, cap))
    if kind == "ideal":
        maxp = cx.real("max_power", lo=0)
        b = B.Battery(cap, init0, maxp)
        nl = 0
    else:
        maxp = cx.real("max_power", lo=0, lo_open=True)
        ts = cx.real("transition_soc", lo=0, hi=1, hi_open=True)
        nl = cx.real("noise_level", lo=0, lo_open=True) if noise else 0
        b = B.Linear2StageBattery(cap, init0, maxp, noise_level=nl, transition_soc=ts,
                                  charge_calculation="stepwise" if kind == "stepwise" else "continuous")
    b.reset(charge)
    return b, cap, charge, maxp


def h_step(cx, kind, noise):
    env.install(cx)
    env.install_noise(cx)
    b, cap, charge, maxp = make_battery(cx, kind, noise)
    pilot = cx.real("pilot", lo=0)
    V = cx.real("voltage", lo=0, lo_open=True)
    T = cx.real("period", lo=0, lo_open=True)
    rate = b.charge(pilot, V, T)
    d = b._to_dict()[0]
    new_charge = d["_current_charge"]
    power = b.current_charging_power
    cx.tag("charged")
    cx.observe("rate", rate)
    cx.observe("new_charge", new_charge)
    cx.observe("power", power)
    cx.check("rate>=0", ge(rate, 0))
    cx.check("rate<=pilot", le(rate, pilot))
    cx.check("power<=max_power", le(power, maxp))
    cx.check("charge_nondecreasing", ge(new_charge, charge))
    cx.check("charge<=capacity", le(new_charge, cap))
    cx.check("power=rate*V/1000", eq(power * 1000, rate * V))


def h_two_steps(cx, kind, concrete=None):
    """two pilots applied one after another to the SAME battery object (whatever the first call leaves behind in the object,
    beyond the charge itself, must not break the bounds of the second call); the first pilot is large, the second arbitrary"""
    env.install(cx)
    env.install_noise(cx)
    if concrete is None:
        b, cap, charge, maxp = make_battery(cx, kind, False)
        V = cx.real("voltage", lo=0, lo_open=True)
        T = cx.real("period", lo=0, lo_open=True)
    else:
        # continuous two-stage law: two symbolic exp terms in one query (products of the two) are beyond the exp abstraction, so the
        # FIRST call is concrete (a menu of states before / across / beyond the transition, pilots at and below the maximum) and
        # the second pilot is symbolic: whatever the first call leaves in the object is there when the second call is judged
        import acnportal.acnsim.models.battery as B0

        cap, V, T, ts0, maxp, charge = concrete[:6]
        b = B0.Linear2StageBattery(cap, charge, maxp, noise_level=0, transition_soc=ts0, charge_calculation="stepwise" if kind == "stepwise" else "continuous")
    p1 = cx.real("pilot1", lo=0) if concrete is None else concrete[6]
    p2 = cx.real("pilot2", lo=0)
    # the second call has its own period length (and, symbolic jobs, its own voltage)
    if concrete is None:
        T1, V1 = T, V
        T = cx.real("period2", lo=0, lo_open=True)
        V = cx.real("voltage2", lo=0, lo_open=True)
    else:
        T1, V1 = T, V
        T = concrete[7] if len(concrete) > 7 else T
    b.charge(p1, V1, T1)
    c1 = b._to_dict()[0]["_current_charge"]
    rate = b.charge(p2, V, T)
    c2 = b._to_dict()[0]["_current_charge"]
    cx.tag("charged")
    cx.observe("rate", rate)
    # with a concrete first call the state is a rounded double (soc = charge/capacity and charge = soc*capacity are not exact
    # inverses): a 1e-9 relative band where the two meet (section 3 of DESIGN.md); none when everything is symbolic
    band = 0 if concrete is None else 1e-9
    cx.check("second:rate>=0", ge(rate, -band * 100))
    cx.check("second:rate<=pilot", le(rate, p2 * (1 + band) + band))
    cx.check("second:power<=max_power", le(b.current_charging_power, maxp * (1 + band)))
    cx.check("second:charge_nondecreasing", ge(c2, c1 - band * cap))
    cx.check("second:charge<=capacity", le(c2, cap * (1 + band)))
    # the second call behaves like the same call on a fresh battery in that state
    import acnportal.acnsim.models.battery as B

    d = b._to_dict()[0]
    if kind == "ideal":
        f = B.Battery(cap, c1, maxp)
    else:
        f = B.Linear2StageBattery(cap, c1, maxp, noise_level=0, transition_soc=d["_transition_soc"], charge_calculation="stepwise" if kind == "stepwise" else "continuous")
    rf = f.charge(p2, V, T)
    cx.check("second:same_as_fresh_battery_in_that_state", and_(le(rate - rf, band * 100), le(rf - rate, band * 100)))


def h_ev_evse(cx, kind, evse_kind="inf"):
    """through EVSE.set_pilot -> EV.charge: the EV reports the battery's rate; bounds carry over.  evse_kind != "inf": a bounded /
    deadband / finite-rate EVSE and ANY non-negative pilot it accepts (in particular pilots inside the 1e-3 A acceptance band
    around a level or a range end, which are applied as given)"""
    env.install(cx)
    from acnportal.acnsim.models import EV, EVSE
    from acnportal.acnsim.models.evse import InvalidRateError

    b, cap, charge, maxp = make_battery(cx, kind, False)
    pilot = cx.real("pilot", lo=0)
    V = cx.real("voltage", lo=0, lo_open=True)
    T = cx.real("period", lo=0, lo_open=True)
    req = cx.real("requested", lo=0)
    ev = EV(0, 5, req, "S", "sess", b)
    if evse_kind == "inf":
        evse = EVSE("S", max_rate=float("inf"))
    else:
        evse = simlib.make_evse("S", evse_kind)
        cx.assume(le(pilot, 33))
    evse.plugin(ev)
    try:
        evse.set_pilot(pilot, V, T)
    except InvalidRateError:
        cx.tag("rejected")
        cx.check("rejected_pilot_leaves_rate", eq(ev.current_charging_rate, 0))
        return
    cx.tag("charged")
    cx.observe("rate", ev.current_charging_rate)
    cx.check("ev_rate>=0", ge(ev.current_charging_rate, 0))
    cx.check("ev_rate<=pilot", le(ev.current_charging_rate, evse.current_pilot))
    cx.check("evse_pilot_is_pilot", eq(evse.current_pilot, pilot))


def h_ctor(cx, kind):
    """constructor and reset refuse an initial charge above capacity; accept anything <= capacity"""
    env.install(cx)
    import acnportal.acnsim.models.battery as B

    cap = cx.real("capacity", lo=0, lo_open=True)
    init = cx.real("init")
    cls = B.Battery if kind == "ideal" else B.Linear2StageBattery
    try:
        b = cls(cap, init, 7)
        raised = False
    except ValueError:
        raised = True
    cx.tag("ctor_raised" if raised else "ctor_ok")
    cx.observe("raised", raised)
    cx.check("ctor_raises_iff_init>cap", or_(and_(raised, gt(init, cap)), and_(not raised, le(init, cap))))
    if not raised:
        r = cx.real("reset_to")
        try:
            b.reset(r)
            rr = False
        except ValueError:
            rr = True
        cx.tag("reset_raised" if rr else "reset_ok")
        cx.observe("reset_raised", rr)
        cx.check("reset_raises_iff>cap", or_(and_(rr, gt(r, cap)), and_(not rr, le(r, cap))))
        if not rr:
            cx.check("reset_sets_charge", eq(b._to_dict()[0]["_current_charge"], r))


def jobs(tier):
    js = []
    for kind in ("ideal", "continuous", "stepwise"):
        for noise in ((False,) if kind == "ideal" else (False, True)):
            js.append(Job("step[%s,noise=%s]" % (kind, noise), h_step, dict(kind=kind, noise=noise), functions=FUNCS,
                          expect_tags=("charged",),
                          bounds=dict(step="one charge() from an arbitrary valid state; all 6-8 parameters symbolic reals", unbounded_history="by induction on the state invariant 0<=charge<=capacity"),
                          approx=(kind == "continuous"), cost=3 if kind == "continuous" else 1))
        js.append(Job("ev_evse[%s]" % kind, h_ev_evse, dict(kind=kind), functions=FUNCS, expect_tags=("charged",), approx=(kind == "continuous")))
        # (capacity kWh, V, period min, transition SoC, max power kW, charge before the first call kWh, first pilot A)
        # periods of 15 / 30 / 60 min: period/60 and 60/period are both exact binary numbers (with 5 min the code's two constants
        # 60/5 and 5/60 are not exact inverses, and "rate <= pilot" holds only up to that rounding)
        menu = [(100, 240, 15, 0.75, 7.5, 50, 32), (100, 240, 15, 0.75, 7.5, 74, 32), (100, 240, 15, 0.75, 7.5, 85, 32), (100, 240, 15, 0.75, 7.5, 74.5, 12), (8, 208, 60, 0.5, 3.25, 3.5, 16), (8, 208, 60, 0.5, 3.25, 7.75, 40)]
        menu += [(100, 240, 15, 0.75, 7.5, 74, 32, 60), (100, 240, 60, 0.75, 7.5, 70, 32, 15)]  # second call with another period length
        if tier != "quick":
            menu += [(c, v, t, ts_, mp, ch, p) for (c, v, t, ts_, mp) in ((100, 240, 15, 0.75, 7.5), (24, 120, 30, 0.25, 1.5), (64, 208, 60, 0.875, 11)) for ch in (0.125 * c, ts_ * c - 0.0625, ts_ * c + 0.25, 0.96875 * c) for p in (6, 32, 80)]
        for conc in ([None] if kind != "continuous" else menu):
            js.append(Job("two_steps[%s%s]" % (kind, "" if conc is None else ",cap=%s,V=%s,T=%s,ts=%s,maxP=%s,charge=%s,p1=%s" % conc[:7] + (",T2=%s" % conc[7] if len(conc) > 7 else "")), h_two_steps, dict(kind=kind, concrete=conc), functions=FUNCS, expect_tags=("charged",),
                          approx=(kind == "continuous"), timeout=1500,
                          bounds=dict(sequence="charge(p1, V1, T1); charge(p2, V2, T2) on one battery object; second call compared with a fresh battery in the same state",
                                      parameters="all symbolic" if conc is None else "first call concrete %s (cap, V, T, transition SoC, max power, charge, first pilot); second pilot symbolic" % (conc,)), cost=4))
        for ek in (("EVSE", "DEADBAND", "CC", "AV5") if kind == "ideal" else ("CC",)):
            js.append(Job("ev_evse[%s,%s]" % (kind, ek), h_ev_evse, dict(kind=kind, evse_kind=ek), functions=FUNCS + ["acnportal.acnsim.models.evse.DeadbandEVSE/FiniteRatesEVSE.set_pilot/_valid_rate"],
                          expect_tags=("charged", "rejected"), approx=(kind == "continuous"),
                          bounds=dict(evse=ek, pilot="[0,33] A symbolic, accepted or rejected by the real EVSE")))
        js.append(Job("ctor[%s]" % kind, h_ctor, dict(kind=kind), functions=FUNCS, expect_tags=("ctor_raised", "ctor_ok", "reset_raised", "reset_ok")))
    js.extend(simlib.jobs_rates_le_pilots(tier))
    return js
