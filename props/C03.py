"""C03 - physical bounds: 0 <= actual rate <= pilot, power <= max power, charge never decreases / never exceeds capacity.

Unit level (inductive step): the real Battery / Linear2StageBattery objects are constructed in an ARBITRARY valid
pre-state (all parameters symbolic reals) and one real `charge()` is executed symbolically; the post-state is shown to
be a valid pre-state again, so one step covers pilot sequences of any length.
Simulation level: see props/simlib.py (rates <= pilots entrywise in whole runs).
"""
from symx import env
from symx.core import le, lt, ge, gt, eq, and_, or_, implies, not_
from symx.run import Job
from props import simlib

FUNCS = [
    "acnportal.acnsim.models.battery.Battery.__init__/charge/reset",
    "acnportal.acnsim.models.battery.Linear2StageBattery.__init__/charge/_charge/_charge_stepwise",
    "acnportal.acnsim.models.ev.EV.charge",
    "acnportal.acnsim.models.evse.EVSE.set_pilot",
]

ASSUMPTIONS = [
    "Python floats modelled as exact reals (IEEE rounding outside the claim)",
    "np.random.normal modelled as an arbitrary real (any noise draw)",
    "np.exp modelled as an uninterpreted function with ground facts exp>0, exp(x)>=1+x, monotone, exp(x)<=1 for x<=0 (sound over-approximation)",
    "builtins min/max/abs in battery.py evaluated as if-then-else terms (no fork)",
    "pre-state: capacity>0, 0<=charge<=capacity, max_power>=0 (>0 two-stage), 0<=transition_soc<1, pilot>=0, voltage>0, period>0",
]


def make_battery(cx, kind, noise):
    import acnportal.acnsim.models.battery as B

    cap = cx.real("capacity", lo=0, lo_open=True)
    charge = cx.real("charge", lo=0)
    cx.assume(le(charge, cap))
    # the state reached by an arbitrary history: constructed with some other initial charge, then brought to
    # `charge` through the public reset(); so current charge and initial charge are independent
    init0 = cx.real("init_charge", lo=0)
    cx.assume(le(init0, cap))
    if kind == "ideal":
        maxp = cx.real("max_power", lo=0)
        b = B.Battery(cap, init0, maxp)
        nl = 0
    else:
        maxp = cx.real("max_power", lo=0, lo_open=True)
        ts = cx.real("transition_soc", lo=0, hi=1, hi_open=True)
        nl = cx.real("noise_level", lo=0, lo_open=True) if noise else 0
        b = B.Linear2StageBattery(cap, init0, maxp, noise_level=nl, transition_soc=ts,
                                  charge_calculation="stepwise" if kind == "stepwise" else "continuous")
    b.reset(charge)
    return b, cap, charge, maxp


def h_step(cx, kind, noise):
    env.install(cx)
    env.install_noise(cx)
    b, cap, charge, maxp = make_battery(cx, kind, noise)
    pilot = cx.real("pilot", lo=0)
    V = cx.real("voltage", lo=0, lo_open=True)
    T = cx.real("period", lo=0, lo_open=True)
    rate = b.charge(pilot, V, T)
    d = b._to_dict()[0]
    new_charge = d["_current_charge"]
    power = b.current_charging_power
    cx.tag("charged")
    cx.observe("rate", rate)
    cx.observe("new_charge", new_charge)
    cx.observe("power", power)
    cx.check("rate>=0", ge(rate, 0))
    cx.check("rate<=pilot", le(rate, pilot))
    cx.check("power<=max_power", le(power, maxp))
    cx.check("charge_nondecreasing", ge(new_charge, charge))
    cx.check("charge<=capacity", le(new_charge, cap))
    cx.check("power=rate*V/1000", eq(power * 1000, rate * V))


def h_ev_evse(cx, kind, evse_kind="inf"):
    """through EVSE.set_pilot -> EV.charge: the EV reports the battery's rate; bounds carry over.  evse_kind != "inf": a bounded /
    deadband / finite-rate EVSE and ANY non-negative pilot it accepts (in particular pilots inside the 1e-3 A acceptance band
    around a level or a range end, which are applied as given)"""
    env.install(cx)
    from acnportal.acnsim.models import EV, EVSE
    from acnportal.acnsim.models.evse import InvalidRateError

    b, cap, charge, maxp = make_battery(cx, kind, False)
    pilot = cx.real("pilot", lo=0)
    V = cx.real("voltage", lo=0, lo_open=True)
    T = cx.real("period", lo=0, lo_open=True)
    req = cx.real("requested", lo=0)
    ev = EV(0, 5, req, "S", "sess", b)
    if evse_kind == "inf":
        evse = EVSE("S", max_rate=float("inf"))
    else:
        evse = simlib.make_evse("S", evse_kind)
        cx.assume(le(pilot, 33))
    evse.plugin(ev)
    try:
        evse.set_pilot(pilot, V, T)
    except InvalidRateError:
        cx.tag("rejected")
        cx.check("rejected_pilot_leaves_rate", eq(ev.current_charging_rate, 0))
        return
    cx.tag("charged")
    cx.observe("rate", ev.current_charging_rate)
    cx.check("ev_rate>=0", ge(ev.current_charging_rate, 0))
    cx.check("ev_rate<=pilot", le(ev.current_charging_rate, evse.current_pilot))
    cx.check("evse_pilot_is_pilot", eq(evse.current_pilot, pilot))


def h_ctor(cx, kind):
    """constructor and reset refuse an initial charge above capacity; accept anything <= capacity"""
    env.install(cx)
    import acnportal.acnsim.models.battery as B

    cap = cx.real("capacity", lo=0, lo_open=True)
    init = cx.real("init")
    cls = B.Battery if kind == "ideal" else B.Linear2StageBattery
    try:
        b = cls(cap, init, 7)
        raised = False
    except ValueError:
        raised = True
    cx.tag("ctor_raised" if raised else "ctor_ok")
    cx.observe("raised", raised)
    cx.check("ctor_raises_iff_init>cap", or_(and_(raised, gt(init, cap)), and_(not raised, le(init, cap))))
    if not raised:
        r = cx.real("reset_to")
        try:
            b.reset(r)
            rr = False
        except ValueError:
            rr = True
        cx.tag("reset_raised" if rr else "reset_ok")
        cx.observe("reset_raised", rr)
        cx.check("reset_raises_iff>cap", or_(and_(rr, gt(r, cap)), and_(not rr, le(r, cap))))
        if not rr:
            cx.check("reset_sets_charge", eq(b._to_dict()[0]["_current_charge"], r))


def jobs(tier):
    js = []
    for kind in ("ideal", "continuous", "stepwise"):
        for noise in ((False,) if kind == "ideal" else (False, True)):
            js.append(Job("step[%s,noise=%s]" % (kind, noise), h_step, dict(kind=kind, noise=noise), functions=FUNCS,
                          expect_tags=("charged",),
                          bounds=dict(step="one charge() from an arbitrary valid state; all 6-8 parameters symbolic reals", unbounded_history="by induction on the state invariant 0<=charge<=capacity"),
                          approx=(kind == "continuous"), cost=3 if kind == "continuous" else 1))
        js.append(Job("ev_evse[%s]" % kind, h_ev_evse, dict(kind=kind), functions=FUNCS, expect_tags=("charged",), approx=(kind == "continuous")))
        for ek in (("EVSE", "DEADBAND", "CC", "AV5") if kind == "ideal" else ("CC",)):
            js.append(Job("ev_evse[%s,%s]" % (kind, ek), h_ev_evse, dict(kind=kind, evse_kind=ek), functions=FUNCS + ["acnportal.acnsim.models.evse.DeadbandEVSE/FiniteRatesEVSE.set_pilot/_valid_rate"],
                          expect_tags=("charged", "rejected"), approx=(kind == "continuous"),
                          bounds=dict(evse=ek, pilot="[0,33] A symbolic, accepted or rejected by the real EVSE")))
        js.append(Job("ctor[%s]" % kind, h_ctor, dict(kind=kind), functions=FUNCS, expect_tags=("ctor_raised", "ctor_ok", "reset_raised", "reset_ok")))
    js.extend(simlib.jobs_rates_le_pilots(tier))
    return js
