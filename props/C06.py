"""C06 - feasibility check = phasor definition; the three checkers agree; 'linear' is conservative; no constraints => usable.

The real ChargingNetwork.add_constraint / constraint_current / is_feasible, Interface.is_feasible / infrastructure_info and
algorithms.utils.infrastructure_constraints_feasible run on symbolic schedules, limits, tolerances (and coefficients).
Oracle: |sum_j A_ij x_jt e^{i phi_j}|^2 <= (L_i + max(atol, rtol L_i))^2 written directly as polynomial inequalities.
Because the repository computes cos/sin constants in two different ways (exp(1j*rad) vs cos/sin), equivalence is stated
with a 1e-9 relative guard band on the limit (strict oracle => accepted => loose oracle); rounding is outside the claim.
"""
import math

from symx import env, core
from symx.core import le, lt, ge, gt, eq, ne, and_, or_, implies, not_, iff, sym_max, sym_abs, ite
from symx.run import Job
from props import simlib
from props.simlib import acn, START

ASSUMPTIONS = [
    "Python floats modelled as exact reals; equivalence with the definition is claimed up to a 1e-9 relative band around each limit (the repository evaluates trigonometric constants in two ways)",
    "phase angles concrete, from {0, 30, -90, 150, 120, -120, 180, 45}; coefficients, limits, tolerances, schedule entries symbolic reals",
    "np.abs / np.linalg.norm of symbolic phasors compared as re^2+im^2 <= L^2 /\\ L >= 0 (no sqrt variable)",
]
FUNCS = [
    "acnportal.acnsim.network.current.Current.__init__",
    "acnportal.acnsim.network.charging_network.ChargingNetwork.register_evse/add_constraint/constraint_current/is_feasible",
    "acnportal.acnsim.interface.Interface.is_feasible/infrastructure_info/_infrastructure_info, InfrastructureInfo.__init__/_validate",
    "acnportal.algorithms.utils.infrastructure_constraints_feasible",
]
BAND = 1e-9


class _Alg:
    max_recompute = 1

    def register_interface(self, i):
        self.interface = i


def build(cx, angles, A, limits, tol=None, ids=None):
    """real network with len(angles) stations and constraint rows A (lists of coefficients), limits"""
    Acn = acn()
    net = Acn.ChargingNetwork(**(tol or {}))
    ids = ["S%d" % j for j in range(len(angles))] if ids is None else ids
    for sid, ph in zip(ids, angles):
        net.register_evse(Acn.EVSE(sid, max_rate=1000), 208, ph)
    for i, row in enumerate(A):
        cur = Acn.Current({ids[j]: c for j, c in enumerate(row) if not (isinstance(c, (int, float)) and c == 0)})
        net.add_constraint(cur, limits[i], name="c%d" % i)
    sim = Acn.Simulator(net, _Alg(), Acn.EventQueue(), START, period=5, verbose=False)
    return net, Acn.Interface(sim), ids


def oracle(angles, A, limits, X, atol, rtol, scale):
    """definition; scale multiplies the tolerated limit (guard band)"""
    cs = [(math.cos(math.radians(p)), math.sin(math.radians(p))) for p in angles]
    conj = []
    T = len(X[0])
    for i, row in enumerate(A):
        lt_ = (limits[i] + sym_max(atol, rtol * limits[i])) * scale
        for t in range(T):
            re = sum(row[j] * X[j][t] * cs[j][0] for j in range(len(angles)))
            im = sum(row[j] * X[j][t] * cs[j][1] for j in range(len(angles)))
            conj.append(and_(ge(lt_, 0), le(re * re + im * im, lt_ * lt_)))
    return and_(*conj)


def sched(cx, n, T, lo=0):
    import numpy as np

    X = [[cx.real("x%d_%d" % (j, t), lo=lo, hi=40) for t in range(T)] for j in range(n)]
    M = np.empty((n, T), dtype=object if cx.mode == "sym" else float)
    for j in range(n):
        for t in range(T):
            M[j, t] = X[j][t]
    return X, M


def sandwich(cx, label, b, strict, loose):
    if b:
        cx.tag(label + ":accepted")
        cx.check(label + ":accepted=>definition", loose)
    else:
        cx.tag(label + ":rejected")
        cx.check(label + ":rejected=>not_definition", not_(strict))


def h_definition(cx, angles, Aspec, T, sym_coeff, neg_sched):
    env.install(cx)
    from acnportal.algorithms.utils import infrastructure_constraints_feasible as icf

    n, m = len(angles), len(Aspec)
    if sym_coeff:
        A = [[cx.real("a%d_%d" % (i, j), lo=-2, hi=2) for j in range(n)] for i in range(m)]
    else:
        A = [list(r) for r in Aspec]
    limits = [cx.real("L%d" % i, lo=0, hi=100) for i in range(m)]
    atol = cx.real("atol", lo=0, hi=1)
    rtol = cx.real("rtol", lo=0, hi=1)
    net, iface, ids = build(cx, angles, A, limits)
    X, M = sched(cx, n, T, lo=-40 if neg_sched else 0)
    strict = oracle(angles, A, limits, X, atol, rtol, 1 - BAND)
    loose = oracle(angles, A, limits, X, atol, rtol, 1 + BAND)
    b_net = bool(net.is_feasible(M, violation_tolerance=atol, relative_tolerance=rtol))
    cx.observe("net", b_net)
    sandwich(cx, "network", b_net, strict, loose)
    # interface side: mapping form, with one station omitted when its schedule is identically 0 (concrete zero row)
    d = {ids[j]: list(M[j]) for j in range(n)}
    b_if = bool(iface.is_feasible(d, violation_tolerance=atol, relative_tolerance=rtol))
    cx.check("interface==network", b_if == b_net)
    # algorithm side
    info = iface.infrastructure_info()
    b_alg = bool(icf(M, info, violation_tolerance=atol, relative_tolerance=rtol))
    cx.observe("alg", b_alg)
    sandwich(cx, "algorithm", b_alg, strict, loose)
    # aggregate currents are the weighted phasor sums
    cc = net.constraint_current(M)
    cs = [(math.cos(math.radians(p)), math.sin(math.radians(p))) for p in angles]
    for i in range(m):
        for t in range(T):
            re = sum(A[i][j] * X[j][t] * cs[j][0] for j in range(n))
            im = sum(A[i][j] * X[j][t] * cs[j][1] for j in range(n))
            z = cc[i, t]
            zr, zi = (z.real, z.imag)
            cx.check("constraint_current_re", and_(le(zr - re, 1e-9 * 40 * 6), le(re - zr, 1e-9 * 40 * 6)))
            cx.check("constraint_current_im", and_(le(zi - im, 1e-9 * 40 * 6), le(im - zi, 1e-9 * 40 * 6)))


def h_defaults_and_omitted(cx, angles, Aspec, T):
    """default tolerances everywhere (network attrs 1e-5 / 1e-7 == utils defaults); mapping form with omitted stations"""
    env.install(cx)
    from acnportal.algorithms.utils import infrastructure_constraints_feasible as icf
    import numpy as np

    n, m = len(angles), len(Aspec)
    A = [list(r) for r in Aspec]
    limits = [cx.real("L%d" % i, lo=0, hi=100) for i in range(m)]
    net, iface, ids = build(cx, angles, A, limits)
    X, M = sched(cx, n, T)
    # last station omitted from the mapping <=> its row is 0
    for t in range(T):
        X[n - 1][t] = 0
        M[n - 1, t] = 0
    strict = oracle(angles, A, limits, X, 1e-5, 1e-7, 1 - BAND)
    loose = oracle(angles, A, limits, X, 1e-5, 1e-7, 1 + BAND)
    order = list(range(n - 1))[::-1]  # mapping listed in reverse station order
    d = {ids[j]: list(M[j]) for j in order}
    b_if = bool(iface.is_feasible(d))
    sandwich(cx, "interface_mapping", b_if, strict, loose)
    b_net = bool(net.is_feasible(M))
    cx.check("interface==network", b_if == b_net)
    b_alg = bool(icf(M, iface.infrastructure_info()))
    sandwich(cx, "algorithm_defaults", b_alg, strict, loose)
    cx.check("empty_mapping_feasible", bool(iface.is_feasible({})) is True)
    cx.observe("b", [b_if, b_net, b_alg])


def h_after_update(cx, angles, Aspec, T, which, remove=False):
    """history: every checker has answered once (with other, loose tolerances), then constraint `which` is replaced through the
    public update_constraint (same name, new coefficients, new limit); the three checkers are judged on the UPDATED network"""
    env.install(cx)
    from acnportal.algorithms.utils import infrastructure_constraints_feasible as icf
    import numpy as np

    Acn = acn()
    n, m = len(angles), len(Aspec)
    A = [list(r) for r in Aspec]
    limits = [cx.real("L%d" % i, lo=0, hi=100) for i in range(m)]
    net, iface, ids = build(cx, angles, A, limits)
    Z = np.zeros((n, T))
    net.is_feasible(Z, violation_tolerance=3.0, relative_tolerance=0.5)
    iface.is_feasible({ids[j]: list(Z[j]) for j in range(n)}, violation_tolerance=3.0, relative_tolerance=0.5)
    icf(Z, iface.infrastructure_info())
    iface.get_constraints()
    if remove:
        net.remove_constraint("c%d" % which)
        cx.tag("updated")
        A2 = [A[i] for i in range(m) if i != which]
        L2 = [limits[i] for i in range(m) if i != which]
        m = m - 1
    else:
        new_row = [cx.real("u%d" % j, lo=-2, hi=2) for j in range(n)]
        new_lim = cx.real("L_new", lo=0, hi=100)
        net.update_constraint("c%d" % which, Acn.Current({ids[j]: new_row[j] for j in range(n)}), new_lim)
        cx.tag("updated")
        # the updated constraint is re-appended: rows and limits in the network's new order
        A2 = [A[i] for i in range(m) if i != which] + [new_row]
        L2 = [limits[i] for i in range(m) if i != which] + [new_lim]
    X, M = sched(cx, n, T)
    strict = oracle(angles, A2, L2, X, 1e-5, 1e-7, 1 - BAND)
    loose = oracle(angles, A2, L2, X, 1e-5, 1e-7, 1 + BAND)
    b_net = bool(net.is_feasible(M))
    sandwich(cx, "network_after_update", b_net, strict, loose)
    b_if = bool(iface.is_feasible({ids[j]: list(M[j]) for j in range(n)}))
    cx.check("after_update:interface==network", b_if == b_net)
    b_alg = bool(icf(M, iface.infrastructure_info()))
    sandwich(cx, "algorithm_after_update", b_alg, strict, loose)
    cons = iface.get_constraints()
    cx.check("after_update:limits_seen_by_schedulers", len(cons.magnitudes) == m and all(bool(eq(cons.magnitudes[i], L2[i]).weak() if cx.mode == "conc" else True) for i in range(m)))
    for i in range(m):
        cx.check("after_update:limit[%d]" % i, eq(cons.magnitudes[i], L2[i]))
    cx.observe("b", [b_net, b_if, b_alg])


def h_reloaded(cx, angles, Aspec, T):
    """the network is written with the public to_json() and read back; the three checkers of the RELOADED network are judged
    against the definition (station ids registered in an order that is not their sorted order, unequal phase angles)"""
    env.install(cx)
    env.install_json(cx)
    import warnings
    from acnportal.algorithms.utils import infrastructure_constraints_feasible as icf

    Acn = acn()
    n, m = len(angles), len(Aspec)
    A = [list(r) for r in Aspec]
    limits = [cx.real("L%d" % i, lo=0, hi=100) for i in range(m)]
    ids = ["PS-10", "PS-9", "PS-2"][:n]
    net0, _, ids = build(cx, angles, A, limits, ids=ids)
    with warnings.catch_warnings():
        warnings.simplefilter("ignore")
        net = Acn.ChargingNetwork.from_json(net0.to_json())
    cx.tag("reloaded")
    cx.check("reload:station_order_kept", list(net.station_ids) == ids, note=str(net.station_ids))
    sim = Acn.Simulator(net, _Alg(), Acn.EventQueue(), START, period=5, verbose=False)
    iface = Acn.Interface(sim)
    X, M = sched(cx, n, T)
    strict = oracle(angles, A, limits, X, 1e-5, 1e-7, 1 - BAND)
    loose = oracle(angles, A, limits, X, 1e-5, 1e-7, 1 + BAND)
    b_net = bool(net.is_feasible(M))
    sandwich(cx, "reloaded_network", b_net, strict, loose)
    b_if = bool(iface.is_feasible({ids[j]: list(M[j]) for j in range(n)}))
    cx.check("reloaded:interface==network", b_if == b_net)
    b_alg = bool(icf(M, iface.infrastructure_info()))
    sandwich(cx, "reloaded_algorithm", b_alg, strict, loose)
    cx.observe("b", [b_net, b_if, b_alg])


def h_linear(cx, angles, Aspec, T, sym_coeff):
    """linear relaxation is conservative for non-negative schedules, on both implementations"""
    env.install(cx)
    from acnportal.algorithms.utils import infrastructure_constraints_feasible as icf

    n, m = len(angles), len(Aspec)
    if sym_coeff:
        A = [[cx.real("a%d_%d" % (i, j), lo=-2, hi=2) for j in range(n)] for i in range(m)]
    else:
        A = [list(r) for r in Aspec]
    limits = [cx.real("L%d" % i, lo=0, hi=100) for i in range(m)]
    net, iface, ids = build(cx, angles, A, limits)
    X, M = sched(cx, n, T)
    b_lin = bool(net.is_feasible(M, linear=True))
    if b_lin:
        cx.tag("net_linear_accepts")
        loose = oracle(angles, A, limits, X, 1e-5, 1e-7, 1 + BAND)
        cx.check("network_linear_accept=>phase_aware_definition", loose)
    else:
        cx.tag("net_linear_rejects")
    info = iface.infrastructure_info()
    b_alin = bool(icf(M, info, linear=True))
    if b_alin:
        cx.tag("alg_linear_accepts")
        loose = oracle(angles, A, limits, X, 1e-5, 1e-7, 1 + BAND)
        cx.check("algorithm_linear_accept=>phase_aware_definition", loose)
    else:
        cx.tag("alg_linear_rejects")
    # the two linear checks are the same test (sum of |coefficient| x current per constraint and PERIOD against limit + tolerance)
    cx.check("linear:algorithm==network", b_lin == b_alin, note="network %s algorithm %s" % (b_lin, b_alin))
    lin_def = and_(*[le(sum(abs(A[i][j]) * X[j][t] for j in range(n)), limits[i] + core.sym_max(1e-5, 1e-7 * limits[i])) for i in range(m) for t in range(T)])
    cx.check("linear:network==sum|a|x<=limit+tol", iff(lin_def, b_lin))
    cx.observe("lin", [b_lin, b_alin])


def h_noconstraints(cx, n, T, algo):
    """a network without constraints accepts every schedule and is usable by the schedulers"""
    env.install(cx)
    from acnportal.algorithms.utils import infrastructure_constraints_feasible as icf
    import acnportal.algorithms as ALG

    Acn = acn()
    net, iface, ids = build(cx, [0, 30, -90][:n], [], [])
    X, M = sched(cx, n, T, lo=-40)
    cx.check("network_accepts", bool(net.is_feasible(M)) is True)
    cx.check("interface_accepts", bool(iface.is_feasible({ids[j]: list(M[j]) for j in range(n)})) is True)
    info = iface.infrastructure_info()
    cx.check("algorithm_accepts", bool(icf(M, info)) is True)
    cx.check("info_shape", info.constraint_matrix.shape == (0, n) and len(info.constraint_limits) == 0)
    cx.check("accessors", iface.max_pilot_signal(ids[0]) == 1000 and iface.evse_voltage(ids[0]) == 208 and iface.evse_phase(ids[0]) == 0)
    # a real scheduler on that network
    req = cx.real("req", lo=1, hi=50)
    ev = Acn.EV(0, 3, req, ids[0], "s0", Acn.Battery(100, 0, 1000))
    alg = {"fcfs": lambda: ALG.SortedSchedulingAlgo(ALG.first_come_first_served), "rr": lambda: ALG.RoundRobin(ALG.first_come_first_served, continuous_inc=500),
           "unc": lambda: ALG.UncontrolledCharging()}[algo]()
    net2 = Acn.ChargingNetwork()
    for sid in ids:
        net2.register_evse(Acn.FiniteRatesEVSE(sid, [0, 8, 16]), 208, 0)
    sim = Acn.Simulator(net2, alg, Acn.EventQueue([Acn.PluginEvent(0, ev)]), START, period=5, verbose=False)
    sim.run()
    cx.tag("scheduler_ran")
    cx.check("scheduler_charged_at_max", eq(sim.charging_rates[0, 0], 16))
    cx.observe("rates", sim.charging_rates[:, : sim.iteration])


MIXED = {
    2: [[(1, -1)], [(1, 1)], [(0.25, -0.5)]],
    3: [[(1, -1, 0), (0, 1, -1)], [(1, 1, 1)], [(0.25, -0.5, 0.25), (1, 0, -1)]],
}


def jobs(tier):
    js = []
    q = tier == "quick"
    # definition / agreement
    defs = []
    if q:
        defs = [((0, 0), ((0, 0),), 1, True, False), ((30, -90), ((0, 0),), 1, True, False), ((30, 150), MIXED[2][0], 2, False, False),
                ((30, -90, 150), MIXED[3][0], 1, False, False), ((0, 120), MIXED[2][2], 1, False, True)]
    else:
        for ang in ((0, 0), (30, -90), (30, 150), (0, 120), (-120, 45), (180, 0)):
            defs.append((ang, ((0, 0),), 1, True, False))
            defs.append((ang, ((0, 0),), 1, True, True))
            for A in MIXED[2]:
                defs.append((ang, A, 2, False, False))
        for ang in ((30, -90, 150), (0, 120, -120), (30, 30, -90), (0, 45, 180)):
            for A in MIXED[3]:
                defs.append((ang, A, 2, False, False))
            defs.append((ang, MIXED[3][0], 1, False, True))
        defs.append(((30, -90), ((0, 0), (0, 0)), 1, True, False))
    for ang, A, T, sc, neg in defs:
        js.append(Job("definition[ang=%s,A=%s,T=%d,neg=%d]" % (ang, "sym%dx%d" % (len(A), len(ang)) if sc else A, T, neg), h_definition,
                      dict(angles=ang, Aspec=A, T=T, sym_coeff=sc, neg_sched=neg), functions=FUNCS, expect_tags=("network:accepted", "network:rejected", "algorithm:accepted", "algorithm:rejected"),
                      max_paths=5000, timeout=2400, bounds=dict(stations=len(ang), constraints=len(A), periods=T, coefficients="symbolic in [-2,2]" if sc else "concrete mixed-sign",
                                                               schedule="[-40,40]" if neg else "[0,40]", limits="[0,100]", tolerances="[0,1]"), cost=(8 if sc else 1) * 4 ** (len(A) * T)))
    dm = [((30, -90, 150), MIXED[3][0], 1), ((0, 0, 0), MIXED[3][1], 2)] if q else [((30, -90, 150), A, 2) for A in MIXED[3]] + [((0, 0, 0), MIXED[3][1], 2), ((0, 120, -120), MIXED[3][2], 2)]
    for ang, A, T in dm:
        js.append(Job("defaults_omitted[ang=%s,A=%s,T=%d]" % (ang, A, T), h_defaults_and_omitted, dict(angles=ang, Aspec=A, T=T), functions=FUNCS,
                      expect_tags=("interface_mapping:accepted", "interface_mapping:rejected"), max_paths=5000, timeout=2400,
                      bounds=dict(stations=len(ang), constraints=len(A), periods=T, tolerances="network defaults 1e-5 / 1e-7"), cost=4 ** (len(A) * T)))
    for ang, A, T, which, rem in ([((0, 120), MIXED[2][0], 1, 0, False), ((30, -90, 150), MIXED[3][0], 1, len(MIXED[3][0]) - 1, False), ((30, -90, 150), MIXED[3][0], 1, 0, True)] if q else
                                  [((0, 120), A_, 2, w, False) for A_ in MIXED[2] for w in range(len(A_))] + [((30, -90, 150), A_, 1, w, r_) for A_ in (MIXED[3][0], MIXED[3][2]) for w in range(len(A_)) for r_ in (False, True)]):
        js.append(Job("after_%s[ang=%s,A=%s,T=%d,which=%d]" % ("remove" if rem else "update", ang, A, T, which), h_after_update, dict(angles=ang, Aspec=A, T=T, which=which, remove=rem), functions=FUNCS + ["acnportal.acnsim.network.charging_network.ChargingNetwork.update_constraint", "acnportal.acnsim.interface.Interface.get_constraints"],
                      expect_tags=("updated",), max_paths=5000, timeout=2400, bounds=dict(stations=len(ang), constraints=len(A), periods=T, history="all three checkers queried with loose tolerances, update_constraint(#%d), queried again" % which), cost=20))
    for ang, A, T in ([((30, -90, 150), MIXED[3][0], 1)] if q else [((30, -90, 150), A_, 2) for A_ in MIXED[3]] + [((0, 120), MIXED[2][2], 2)]):
        js.append(Job("reloaded[ang=%s,A=%s,T=%d]" % (ang, A, T), h_reloaded, dict(angles=ang, Aspec=A, T=T), functions=FUNCS + ["acnportal.acnsim.base.BaseSimObj.to_json/from_json", "acnportal.acnsim.network.charging_network.ChargingNetwork._to_dict/_from_dict"],
                      expect_tags=("reloaded",), max_paths=5000, timeout=2400, bounds=dict(stations=len(ang), constraints=len(A), periods=T, station_ids="registered in non-sorted order", history="to_json / from_json before the queries"), cost=20))
    lin = [((30, 150), MIXED[2][0], 1, False), ((0, 120), ((0, 0),), 1, True), ((30, -90, 150), MIXED[3][2], 1, False), ((30, 150), MIXED[2][1], 2, False)] if q else \
        [(ang, A, 2, False) for ang in ((30, 150), (0, 120), (0, 0)) for A in MIXED[2]] + [((0, 120), ((0, 0),), 1, True), ((30, -90), ((0, 0),), 2, True)] + [((30, -90, 150), A, 2, False) for A in MIXED[3]]
    for ang, A, T, sc in lin:
        js.append(Job("linear[ang=%s,A=%s,T=%d]" % (ang, "sym" if sc else A, T), h_linear, dict(angles=ang, Aspec=A, T=T, sym_coeff=sc), functions=FUNCS,
                      expect_tags=("net_linear_accepts", "net_linear_rejects", "alg_linear_accepts"), max_paths=5000, timeout=2400,
                      bounds=dict(stations=len(ang), constraints=len(A), periods=T, schedule=">=0"), cost=(8 if sc else 1) * 4 ** (len(A) * T)))
    for n, T, algo in ([(2, 2, "unc"), (3, 1, "fcfs"), (2, 1, "rr")] if q else [(n, T, a) for n in (2, 3) for T in (1, 2) for a in ("unc", "fcfs", "rr")]):
        js.append(Job("noconstraints[n=%d,T=%d,%s]" % (n, T, algo), h_noconstraints, dict(n=n, T=T, algo=algo), functions=FUNCS + ["acnportal.algorithms.*.schedule on a constraint-free network"],
                      expect_tags=("scheduler_ran",), bounds=dict(stations=n, periods=T)))
    return js
