"""C12 - constraint matrix, limits and names stay aligned under add / remove / update.

The real Current algebra (pandas Series subclass: construction from dict / str / list / Series, +, -, scalar multiple
on either side, also as an operand) and the real ChargingNetwork.register_evse / add_constraint / remove_constraint /
update_constraint / constraints_as_df / constraint_current run with EVERY coefficient, scalar and limit its own symbolic
real.  Alignment then is "entry (i, j) IS the model's coefficient (i, j)" - a misplaced, dropped or re-ordered entry makes
the equality falsifiable and the solver returns the coefficients that show it.

Oracle: a dict-of-dict coefficient model written from the algebra's mathematical meaning (a Current is a finite map
station -> coefficient; + / - / k* are pointwise with absent = 0), kept next to a list of (name, row, limit) in
insertion order.
"""
import itertools
import math
import warnings

from symx import env
from symx.core import le, lt, ge, gt, eq, ne, and_, or_, implies, not_, iff, is_sym
from symx.run import Job
from props.simlib import acn, START

FUNCS = [
    "acnportal.acnsim.network.current.Current.__init__/__add__/__radd__/__sub__ (+ pandas Series scalar multiplication on object data)",
    "acnportal.acnsim.network.charging_network.ChargingNetwork.register_evse/add_constraint/remove_constraint/update_constraint/constraints_as_df/constraint_current/is_feasible",
]
ASSUMPTIONS = [
    "every coefficient, scalar factor and limit is a separate symbolic real in [-4, 4] (limits in [0, 100]); Python floats modelled as exact reals",
    "pandas alignment (Series.add with fill_value, concat, fillna, reindex, to_frame) is executed for real on object-dtype data; its semantics on object data are part of the trusted base",
    "operation sequences, expression shapes, station subsets and listing orders are discrete and covered by forking / job enumeration inside the stated bounds",
    "phase angles concrete (0/30/-90/150/120) in the constraint_current queries; schedule entries symbolic",
]
EXPECT_GLOBAL_TAGS = ("op:add", "op:remove", "op:update", "expr:sum", "expr:diff", "expr:scaled_operand", "registration_refused", "query:subset", "query:linear", "op:reuse")


# ---- expression trees: (kind, ...) built both as a real Current and as a model dict -------------------------------------

LEAF_SUBSETS = {3: [("A",), ("B", "A"), ("C", "A"), ("C", "B", "A"), ("B", "C")], 4: [("D", "A"), ("B",), ("C", "D", "A"), ("A", "B", "C", "D"), ("D", "C")]}


class Builder:
    def __init__(self, cx, ids):
        self.cx, self.ids, self.n = cx, ids, 0

    def coeff(self, what):
        self.n += 1
        return self.cx.real("%s%d" % (what, self.n), lo=-4, hi=4)

    def leaf(self, stations, form="dict"):
        A = acn()
        if form == "str":
            return A.Current(stations[0]), {stations[0]: 1}
        if form == "list":
            return A.Current(list(stations)), {s: 1 for s in stations}
        d = {s: self.coeff("c") for s in stations}
        if form == "series":
            import pandas as pd

            return A.Current(pd.Series(d)), dict(d)
        return A.Current(d), dict(d)

    def build(self, spec):
        """spec: ('leaf', stations[, form]) | ('add', s1, s2) | ('sub', s1, s2) | ('lmul', s) | ('rmul', s)"""
        k = spec[0]
        if k == "leaf":
            return self.leaf(spec[1], spec[2] if len(spec) > 2 else "dict")
        if k in ("add", "sub"):
            c1, m1 = self.build(spec[1])
            c2, m2 = self.build(spec[2])
            self.cx.tag("expr:sum" if k == "add" else "expr:diff")
            if spec[1][0] in ("lmul", "rmul") or spec[2][0] in ("lmul", "rmul"):
                self.cx.tag("expr:scaled_operand")
            keys = list(m1) + [s for s in m2 if s not in m1]
            if k == "add":
                return c1 + c2, {s: m1.get(s, 0) + m2.get(s, 0) for s in keys}
            return c1 - c2, {s: m1.get(s, 0) - m2.get(s, 0) for s in keys}
        if k in ("lmul", "rmul"):
            c, m = self.build(spec[1])
            f = self.coeff("k")
            return (f * c if k == "lmul" else c * f), {s: f * v for s, v in m.items()}
        raise ValueError(k)


def exprs(ids, depth, tier):
    """expression specs over the station ids"""
    subs = LEAF_SUBSETS[len(ids)]
    L = [("leaf", s) for s in subs]
    out = [L[1], L[3], ("leaf", subs[0], "str"), ("leaf", subs[2], "list"), ("leaf", subs[1], "series")]
    if depth >= 1:
        out += [("add", L[1], L[2]), ("sub", L[2], L[4]), ("lmul", L[3]), ("rmul", L[2]), ("sub", L[0], L[0])]
        # both operands over the SAME stations, listed in different orders (alignment is by station id, not by position)
        out += [("add", L[1], ("leaf", subs[1][::-1])), ("sub", ("leaf", subs[3][1:] + subs[3][:1]), L[3])]
    if depth >= 2:
        out += [("add", L[0], ("lmul", L[4])), ("sub", ("lmul", L[1]), L[2]), ("sub", L[3], ("rmul", L[2])), ("add", ("rmul", L[4]), L[0]),
                ("lmul", ("sub", L[1], L[4])), ("add", ("add", L[0], L[4]), L[2]), ("sub", ("leaf", subs[0], "str"), ("lmul", ("leaf", subs[2], "list"))),
                ("add", ("lmul", L[3]), ("leaf", subs[3][::-1]))]
    if tier == "thorough" and depth >= 2:
        out += [("sub", ("sub", L[3], L[1]), ("lmul", L[2])), ("lmul", ("lmul", L[1])), ("add", ("lmul", L[0]), ("rmul", L[4])), ("rmul", ("add", L[1], L[2]))]
    return out


# ---- checks ------------------------------------------------------------------------------------------------------------


def check_state(cx, net, ids, model, label):
    """model: list of (name, row dict, limit) in insertion order"""
    m = len(model)
    cx.check(label + ":names", list(net.constraint_index) == [r[0] for r in model], note="%s vs %s" % (net.constraint_index, [r[0] for r in model]))
    cx.check(label + ":n_limits", len(net.magnitudes) == m)
    if m == 0:
        return
    cx.check(label + ":matrix_shape", tuple(net.constraint_matrix.shape) == (m, len(ids)), note=str(net.constraint_matrix.shape))
    df = net.constraints_as_df()
    cx.check(label + ":df_labels", list(df.columns) == list(net.station_ids) and list(df.index) == [r[0] for r in model])
    if tuple(net.constraint_matrix.shape) != (m, len(ids)) or len(net.magnitudes) != m:
        return
    for i, (name, row, limit) in enumerate(model):
        cx.check(label + ":limit", eq(net.magnitudes[i], limit))
        for j, sid in enumerate(net.station_ids):
            v = net.constraint_matrix[i, j]
            if isinstance(v, float) and math.isnan(v):
                cx.check(label + ":coeff", False, note="NaN at row %s station %s" % (name, sid))
                continue
            cx.check(label + ":coeff", eq(v, row.get(sid, 0)), note="row %s station %s" % (name, sid))


def h_sequence(cx, n, perm, ops, depth, tier, rot=0, width=5):
    """ops: tuple of op kinds; expression shape / target constraint chosen by forking.  At step s the expression is chosen
    from a window of `width` shapes of the full list starting at rot + 2*s (jobs with different rot cover the list)"""
    env.install(cx)
    A = acn()
    from acnportal.acnsim.network.charging_network import EVSERegistrationError

    base = ["A", "B", "C", "D"][:n]
    ids = [base[i] for i in perm]  # registration order
    net = A.ChargingNetwork()
    angles = [0, 30, -90, 150]
    for j, sid in enumerate(ids):
        net.register_evse(A.EVSE(sid, max_rate=32), 208, angles[j])
    bld = Builder(cx, base)
    Efull = exprs(base, depth, tier)

    def window(step):
        return [Efull[(rot + 2 * step + i) % len(Efull)] for i in range(min(width, len(Efull)))]

    model = []
    passed = []  # Current objects already handed to the network, with their rows
    counter = [0]

    def fresh_name():
        counter[0] += 1
        return "con%d" % counter[0]

    check_state(cx, net, ids, model, "init")
    probe_x = []
    with warnings.catch_warnings(record=True) as wlist:
        warnings.simplefilter("always")
        for step, op in enumerate(ops):
            lab = "s%d" % step
            if op in ("add", "add_unnamed", "add_dup"):
                spec = cx.choice("expr%d" % step, window(step))
                cur, row = bld.build(spec)
                lim = cx.real("lim%d" % step, lo=0, hi=100)
                if op == "add_unnamed":
                    name = "_const_%d" % len(model)
                    net.add_constraint(cur, lim)
                elif op == "add_dup" and model:
                    tgt = model[cx.choice("dup%d" % step, range(len(model)))][0]
                    nw = len(wlist)
                    net.add_constraint(cur, lim, name=tgt)
                    name = tgt + "_v2"
                    cx.check(lab + ":duplicate_name_warns", len(wlist) > nw)
                else:
                    name = fresh_name()
                    net.add_constraint(cur, lim, name=name)
                model.append((name, row, lim))
                passed.append((cur, row))
                cx.tag("op:add")
            elif op in ("add_reuse", "update_reuse"):
                # a Current object that was already handed to the network (and possibly named by it) is used again:
                # as it is, scaled, or added to itself
                if not passed:
                    continue
                pc, prow = passed[cx.choice("reuse%d" % step, range(len(passed)))]
                how = cx.choice("how%d" % step, ["same", "scaled", "doubled"])
                if how == "same":
                    cur, row = pc, dict(prow)
                elif how == "scaled":
                    f = bld.coeff("k")
                    cur, row = f * pc, {s_: f * v for s_, v in prow.items()}
                else:
                    cur, row = pc + pc, {s_: v + v for s_, v in prow.items()}
                lim = cx.real("lim%d" % step, lo=0, hi=100)
                name = fresh_name()
                if op == "add_reuse" or not model:
                    net.add_constraint(cur, lim, name=name)
                else:
                    k = cx.choice("up%d" % step, range(len(model)))
                    net.update_constraint(model[k][0], cur, lim, new_name=name)
                    del model[k]
                model.append((name, row, lim))
                passed.append((cur, row))
                cx.tag("op:reuse")
            elif op == "remove":
                if not model:
                    continue
                k = cx.choice("rm%d" % step, range(len(model)))
                net.remove_constraint(model[k][0])
                del model[k]
                cx.tag("op:remove")
            elif op in ("update", "update_rename"):
                if not model:
                    continue
                k = cx.choice("up%d" % step, range(len(model)))
                spec = cx.choice("expr%d" % step, window(step))
                cur, row = bld.build(spec)
                lim = cx.real("lim%d" % step, lo=0, hi=100)
                old = model[k][0]
                if op == "update_rename":
                    new = fresh_name()
                    net.update_constraint(old, cur, lim, new_name=new)
                else:
                    new = old
                    net.update_constraint(old, cur, lim)
                # documented behaviour: the updated constraint is removed and re-added (it moves to the end)
                del model[k]
                model.append((new, row, lim))
                passed.append((cur, row))
                cx.tag("op:update")
            elif op == "remove_missing":
                try:
                    net.remove_constraint("no-such-constraint")
                    cx.check(lab + ":remove_missing_raises", False)
                except KeyError:
                    cx.check(lab + ":remove_missing_raises", True)
            elif op == "add_unknown_station":
                before = (list(net.constraint_index), len(net.magnitudes))
                try:
                    net.add_constraint(A.Current({"A": 1, "ZZ": 1}), 5, name="bad")
                    cx.check(lab + ":unknown_station_raises", False)
                except KeyError:
                    cx.check(lab + ":unknown_station_raises", True)
                cx.check(lab + ":unknown_station_leaves_state", (list(net.constraint_index), len(net.magnitudes)) == before)
            check_state(cx, net, ids, model, lab)
            # by-name queries between the operations (not only on the final network): what an earlier query left behind in the
            # network must not leak into a later one
            if model:
                probe(cx, net, ids, model, angles, lab, probe_x)
    # registration guard
    if model:
        try:
            net.register_evse(A.EVSE("late", max_rate=32), 208, 0)
            cx.check("registration_refused", False, note="register_evse accepted after constraints exist")
        except EVSERegistrationError:
            cx.tag("registration_refused")
            cx.check("registration_refused", True)
        cx.check("registration_left_stations", list(net.station_ids) == ids)
    cx.observe("matrix", net.constraint_matrix if model else [])
    cx.observe("limits", net.magnitudes)
    cx.observe("names", list(net.constraint_index))
    # subset / ordering semantics of constraint_current on the final network
    if model:
        query(cx, net, ids, model, angles)


def probe(cx, net, ids, model, angles, lab, px):
    """one-period by-name queries for the first and the last constraint of the model"""
    import numpy as np

    n = len(ids)
    if not px:
        px.extend(cx.real("px%d" % j, lo=0, hi=32) for j in range(n))
    M = np.empty((n, 1), dtype=object if cx.mode == "sym" else float)
    for j in range(n):
        M[j, 0] = px[j]
    cs = [(math.cos(math.radians(a)), math.sin(math.radians(a))) for a in angles[:n]]
    names = [r[0] for r in model]
    for i in sorted({0, len(model) - 1}):
        cc = net.constraint_current(M, constraints=[names[i]])
        ok_shape = tuple(cc.shape) == (1, 1)
        cx.check(lab + ":probe:shape", ok_shape, note=str(cc.shape))
        if not ok_shape:
            continue
        re = sum(model[i][1].get(ids[j], 0) * px[j] * cs[j][0] for j in range(n))
        im = sum(model[i][1].get(ids[j], 0) * px[j] * cs[j][1] for j in range(n))
        band = 1e-9 * 32 * 16 * 4 * 4
        z = cc[0, 0]
        cx.check(lab + ":probe:by_name", and_(le(z.real - re, band), le(re - z.real, band), le(z.imag - im, band), le(im - z.imag, band)))


def query(cx, net, ids, model, angles):
    import numpy as np

    T = 3
    n = len(ids)
    X = [[cx.real("x%d_%d" % (j, t), lo=0, hi=32) for t in range(T)] for j in range(n)]
    M = np.empty((n, T), dtype=object if cx.mode == "sym" else float)
    for j in range(n):
        for t in range(T):
            M[j, t] = X[j][t]
    cs = [(math.cos(math.radians(a)), math.sin(math.radians(a))) for a in angles[:n]]
    names = [r[0] for r in model]
    subsets = [None, names[::-1], names[:1], names[-1:]]
    if len(names) >= 3:
        subsets.append([names[2], names[0]])
    tis = [None, [2, 0], [1]]
    for si, sub in enumerate(subsets):
        for ti in tis:
            cc = net.constraint_current(M, constraints=sub, time_indices=ti)
            rows = [i for i in range(len(model)) if sub is None or names[i] in sub]  # network order
            cols = list(range(T)) if ti is None else ti
            ok_shape = tuple(cc.shape) == (len(rows), len(cols))
            cx.check("query:shape", ok_shape, note="%s vs %s" % (cc.shape, (len(rows), len(cols))))
            if sub is not None:
                cx.tag("query:subset")
            if not ok_shape:
                continue
            for a, i in enumerate(rows):
                for b, t in enumerate(cols):
                    re = sum(model[i][1].get(ids[j], 0) * X[j][t] * cs[j][0] for j in range(n))
                    im = sum(model[i][1].get(ids[j], 0) * X[j][t] * cs[j][1] for j in range(n))
                    z = cc[a, b]
                    band = 1e-9 * 32 * 16 * 4 * 4
                    cx.check("query:re", and_(le(z.real - re, band), le(re - z.real, band)))
                    cx.check("query:im", and_(le(z.imag - im, band), le(im - z.imag, band)))
    query_linear(cx, net, ids, model, X, M, T)


def query_linear(cx, net, ids, model, X, M, T):
    """the 'linear' form of constraint_current (sum of |coefficient| x current) for the same subsets of rows and periods"""
    n = len(ids)
    names = [r[0] for r in model]
    for sub in (None, names[-1:]):
        for ti in (None, [2, 0], [1]):
            cc = net.constraint_current(M, constraints=sub, time_indices=ti, linear=True)
            rows = [i for i in range(len(model)) if sub is None or names[i] in sub]
            cols = list(range(T)) if ti is None else ti
            ok_shape = tuple(cc.shape) == (len(rows), len(cols))
            cx.check("query_linear:shape", ok_shape, note="%s vs %s" % (cc.shape, (len(rows), len(cols))))
            if not ok_shape:
                continue
            cx.tag("query:linear")
            for a, i in enumerate(rows):
                for b, t in enumerate(cols):
                    want = sum(abs(model[i][1].get(ids[j], 0)) * X[j][t] for j in range(n))
                    band = 1e-9 * 32 * 16 * 4 * 4
                    v = cc[a, b]  # returned as a complex number with zero imaginary part
                    cx.check("query_linear:value", and_(le(v.real - want, band), le(want - v.real, band), le(v.imag, band), le(-v.imag, band)))


def h_expr(cx, n, perm, spec, tier):
    """one expression, added as first and as second constraint (first-constraint code path differs)"""
    env.install(cx)
    env.install_json(cx)
    A = acn()
    base = ["A", "B", "C", "D"][:n]
    ids = [base[i] for i in perm]
    for first in (True, False):
        net = A.ChargingNetwork()
        for sid in ids:
            net.register_evse(A.EVSE(sid, max_rate=32), 208, 0)
        bld = Builder(cx, base)
        bld.n = 0 if first else 100
        model = []
        if not first:
            c0, r0 = bld.build(("leaf", LEAF_SUBSETS[n][1]))
            l0 = cx.real("lim_first", lo=0, hi=100)
            net.add_constraint(c0, l0, name="first")
            model.append(("first", r0, l0))
        cur, row = bld.build(spec)
        lim = cx.real("lim_%d" % first, lo=0, hi=100)
        net.add_constraint(cur, lim, name="x")
        model.append(("x", row, lim))
        check_state(cx, net, ids, model, "first" if first else "second")
        cx.observe("matrix%d" % first, net.constraint_matrix)
        if not first:
            # the same alignment on a copy of the network that went through the public to_json() / from_json()
            import warnings as _w

            with _w.catch_warnings():
                _w.simplefilter("ignore")
                net2 = A.ChargingNetwork.from_json(net.to_json())
            cx.check("reloaded:station_order", list(net2.station_ids) == ids, note=str(net2.station_ids))
            check_state(cx, net2, ids, model, "reloaded")
    cx.tag("op:add")


def jobs(tier):
    q = tier == "quick"
    js = []
    n = 3
    perms = [(2, 0, 1), (0, 1, 2)] if q else list(itertools.permutations(range(3)))
    # every expression shape on its own (both first- and later-constraint code paths)
    for depth_specs in [exprs(["A", "B", "C"], 2, tier)]:
        for k, spec in enumerate(depth_specs):
            for perm in (perms[:1] if q else perms[:3]):
                js.append(Job("expr[%d,%s,reg=%s]" % (k, _show(spec), "".join("ABC"[i] for i in perm)), h_expr, dict(n=3, perm=perm, spec=spec, tier=tier),
                              functions=FUNCS, bounds=dict(stations=3, expression=_show(spec), registration_order=perm), cost=1))
    seqs_q = [("add", "add", "remove"), ("add", "update", "add"), ("add_unnamed", "add_dup", "update_rename"), ("add", "add_unknown_station", "remove_missing"),
              ("add", "add_reuse", "update_reuse")]
    seqs_t = [("add", "add", "remove", "add"), ("add", "update", "add", "remove"), ("add_unnamed", "add_dup", "update_rename", "remove"),
              ("add", "add", "add", "update"), ("add", "remove", "add_unnamed", "add_unnamed"), ("add", "add_unknown_station", "remove_missing", "update_rename"),
              ("add", "add", "update_rename", "add_dup"), ("add", "add_reuse", "update_reuse", "add_reuse"), ("add", "update_reuse", "remove", "add_reuse")]
    nE = len(exprs(["A", "B", "C"], 2, tier))
    for si, ops in enumerate(seqs_q if q else seqs_t):
        for pi, perm in enumerate(perms if q else perms[:3]):
            depth = 2
            width = 4 if q else 5
            rots = [(5 * si + 7 * pi) % nE] if q else [(r + si + pi) % nE for r in range(0, nE, 5)]
            for rot in rots:
                js.append(Job("seq[%s,reg=%s,rot=%d]" % ("-".join(ops), "".join("ABC"[i] for i in perm), rot), h_sequence,
                              dict(n=3, perm=perm, ops=ops, depth=depth, tier=tier, rot=rot, width=width), functions=FUNCS, max_paths=40000, timeout=3000,
                              bounds=dict(stations=3, operations=list(ops), expression_depth=depth, registration_order=perm, query_periods=3,
                                          expression_window="%d of %d shapes per step, starting at %d+2*step" % (width, nE, rot)), cost=20 if q else 400))
    if not q:
        for rot in (0, 6, 12):
            js.append(Job("seq4[add-add-remove,reg=DBAC,rot=%d]" % rot, h_sequence, dict(n=4, perm=(3, 1, 0, 2), ops=("add", "add", "remove"), depth=2, tier=tier, rot=rot, width=5),
                          functions=FUNCS, max_paths=40000, timeout=3000, bounds=dict(stations=4, operations=["add", "add", "remove"], expression_depth=2), cost=300))
    return js


def _show(spec):
    if spec[0] == "leaf":
        return ("%s:" % spec[2] if len(spec) > 2 else "") + "".join(spec[1])
    if spec[0] in ("add", "sub"):
        return "(%s%s%s)" % (_show(spec[1]), "+" if spec[0] == "add" else "-", _show(spec[2]))
    return ("k*%s" if spec[0] == "lmul" else "%s*k") % _show(spec[1])
