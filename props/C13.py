"""C13 - EVSEs accept exactly their allowable pilots and advertise truthful limits.

The real EVSE / DeadbandEVSE / FiniteRatesEVSE objects are built with SYMBOLIC parameters (range ends, deadband end,
up to three rate levels - unsorted, possibly equal, possibly without 0), brought into an arbitrary reachable pre-state
(a previous accepted pilot p0, with or without a connected real EV + Battery with symbolic state) and one real
set_pilot(pilot) with a symbolic pilot is executed.  The oracle is the band predicate written from the statement.
The advertised values are read from the EVSE, from the ChargingNetwork info cache and through the real Interface and
each of them is fed back into a real set_pilot.
"""
from symx import env
from symx.core import le, lt, ge, gt, eq, ne, and_, or_, implies, not_, iff, sym_abs, is_sym
from symx.run import Job
from props.simlib import acn, START

FUNCS = [
    "acnportal.acnsim.models.evse.BaseEVSE.set_pilot/plugin/unplug",
    "acnportal.acnsim.models.evse.EVSE.__init__/_valid_rate/allowable_pilot_signals/max_rate/min_rate",
    "acnportal.acnsim.models.evse.DeadbandEVSE.__init__/_valid_rate/allowable_pilot_signals",
    "acnportal.acnsim.models.evse.FiniteRatesEVSE.__init__/_valid_rate/allowable_pilot_signals/max_rate/min_rate",
    "acnportal.acnsim.models.ev.EV.charge", "acnportal.acnsim.models.battery.Battery.charge",
    "acnportal.acnsim.network.charging_network.ChargingNetwork.register_evse/_update_info_store/plugin",
    "acnportal.acnsim.interface.Interface.allowable_pilot_signals/max_pilot_signal/min_pilot_signal/infrastructure_info",
]
ASSUMPTIONS = [
    "Python floats modelled as exact reals; the tolerance is the literal 1e-3 (exact binary value of that double)",
    "parameters: 0 <= min_rate <= max_rate, 0 <= deadband_end <= max_rate (valid EVSE parameters), rate levels >= 0; pilot any real in [-10, 100]",
    "pre-state: any previously accepted pilot p0 (p0 drawn from the allowable set by the oracle's definition), EV battery state symbolic",
    "np.isclose(a,b,atol,rtol) modelled by its documented formula |a-b| <= atol + rtol*|b|; np.any over symbolic booleans is a disjunction",
    "set()/sorted() on symbolic levels fork on == and < (every ordering / coincidence pattern of <=3 levels is a separate path)",
]
ATOL = 1e-3


class _Alg:
    max_recompute = 1

    def register_interface(self, i):
        self.interface = i


def _band(kind, params, p):
    if kind == "EVSE":
        lo, hi = params
        return and_(ge(p, lo - ATOL), le(p, hi + ATOL))
    if kind == "DEADBAND":
        db, hi = params
        return or_(and_(ge(p, -ATOL), le(p, ATOL)), and_(ge(p, db - ATOL), le(p, hi + ATOL)))
    levels = list(params) + [0]
    return or_(*[and_(ge(p, l - ATOL), le(p, l + ATOL)) for l in levels])


def _member(kind, params, p):
    """p is exactly in the allowable set"""
    if kind == "EVSE":
        return and_(ge(p, params[0]), le(p, params[1]))
    if kind == "DEADBAND":
        return or_(eq(p, 0), and_(ge(p, params[0]), le(p, params[1])))
    return or_(*[eq(p, l) for l in list(params) + [0]])


def _params(cx, kind, nlevels):
    if kind == "EVSE":
        lo = cx.real("min_rate", lo=0, hi=80)
        hi = cx.real("max_rate", lo=0, hi=80)
        cx.assume(le(lo, hi))
        return (lo, hi)
    if kind == "DEADBAND":
        db = cx.real("deadband_end", lo=0, hi=80)
        hi = cx.real("max_rate", lo=0, hi=80)
        cx.assume(le(db, hi))
        return (db, hi)
    return tuple(cx.real("level%d" % i, lo=0, hi=80) for i in range(nlevels))


def _make(kind, params, sid="S"):
    A = acn()
    if kind == "EVSE":
        return A.EVSE(sid, max_rate=params[1], min_rate=params[0])
    if kind == "DEADBAND":
        return A.DeadbandEVSE(sid, deadband_end=params[0], max_rate=params[1])
    return A.FiniteRatesEVSE(sid, list(params))


def _state(evse, ev):
    st = dict(pilot=evse.current_pilot, occupant=evse.ev)
    if ev is not None:
        b = ev._battery._to_dict()[0]
        st.update(energy=ev.energy_delivered, rate=ev.current_charging_rate, charge=b["_current_charge"], power=b["_current_charging_power"])
    return st


def h_accept(cx, kind, nlevels, with_ev, prior):
    env.install(cx)
    A = acn()
    from acnportal.acnsim.models.evse import InvalidRateError

    params = _params(cx, kind, nlevels)
    evse = _make(kind, params)
    ev = None
    V, T = 208, 5
    if with_ev:
        cap = cx.real("cap", lo=0, lo_open=True, hi=100)
        init = cx.real("init", lo=0)
        cx.assume(le(init, cap))
        ev = A.EV(0, 10, cx.real("req", lo=0, hi=100), "S", "sess", A.Battery(cap, init, cx.real("maxp", lo=0, hi=20)))
        evse.plugin(ev)
    if prior:
        p0 = cx.real("p0", lo=-1, hi=100)
        cx.assume(_band(kind, params, p0))
        evse.set_pilot(p0, V, T)
        cx.check("prior_pilot_stored", eq(evse.current_pilot, p0))
    before = _state(evse, ev)
    pilot = cx.real("pilot", lo=-10, hi=100)
    try:
        evse.set_pilot(pilot, V, T)
        accepted = True
    except InvalidRateError:
        accepted = False
    cx.observe("accepted", accepted)
    band = _band(kind, params, pilot)
    if accepted:
        cx.tag("accepted")
        cx.check("accepted=>in_band", band)
        cx.check("accepted=>pilot_stored", eq(evse.current_pilot, pilot))
    else:
        cx.tag("rejected")
        cx.check("rejected=>outside_band", not_(band))
        after = _state(evse, ev)
        for k in before:
            if k == "occupant":
                cx.check("rejected=>occupant_unchanged", after[k] is before[k])
            else:
                cx.check("rejected=>%s_unchanged" % k, eq(after[k], before[k]))
    cx.observe("pilot_after", evse.current_pilot)


def h_advertised(cx, kind, nlevels):
    """every advertised value (EVSE, network cache, Interface) is accepted by a real set_pilot"""
    env.install(cx)
    A = acn()
    from acnportal.acnsim.models.evse import InvalidRateError

    params = _params(cx, kind, nlevels)
    evse = _make(kind, params)
    net = A.ChargingNetwork()
    other = A.EVSE("Z", max_rate=11)
    net.register_evse(other, 240, 0)
    net.register_evse(evse, 208, 30)
    sim = A.Simulator(net, _Alg(), A.EventQueue(), START, period=5, verbose=False)
    iface = A.Interface(sim)
    # history: an earlier consumer obtained the infrastructure description and rescaled "its own copy" in place (A -> kW);
    # what is advertised afterwards must be unaffected
    scratch = iface.infrastructure_info()
    for arr in (scratch.max_pilot, scratch.min_pilot, scratch.voltages):
        arr[...] = arr * 0.208
    for arr in scratch.allowable_pilots:
        arr[...] = arr * 0.208
    cont_i, allow_i = iface.allowable_pilot_signals("S")
    info = iface.infrastructure_info()
    k = info.get_station_index("S")
    adv = dict(evse_max=evse.max_rate, evse_min=evse.min_rate, net_max=net.max_pilot_signals[1], net_min=net.min_pilot_signals[1],
               if_max=iface.max_pilot_signal("S"), if_min=iface.min_pilot_signal("S"), info_max=info.max_pilot[k], info_min=info.min_pilot[k])
    for i, v in enumerate(evse.allowable_pilot_signals):
        adv["evse_allow%d" % i] = v
    for i, v in enumerate(list(net.allowable_rates[1])):
        adv["net_allow%d" % i] = v
    for i, v in enumerate(allow_i):
        adv["if_allow%d" % i] = v
    for i, v in enumerate(list(info.allowable_pilots[k])):
        adv["info_allow%d" % i] = v
    cx.check("continuity_flag", (bool(cont_i) is (kind != "FINITE")) and bool(info.is_continuous[k]) is (kind != "FINITE") and evse.is_continuous is (kind != "FINITE"))
    for name, v in adv.items():
        cx.check("advertised_in_set[%s]" % name, _member(kind, params, v))
        probe = _make(kind, params, "P")
        try:
            probe.set_pilot(v, 208, 5)
            ok = True
        except InvalidRateError:
            ok = False
        cx.check("advertised_accepted[%s]" % name, ok)
    # the advertised maximum really is the maximum of the set, the minimum the smallest positive member
    if kind == "FINITE":
        lv = list(params) + [0]
        for src in ("evse", "net", "if", "info"):
            cx.check("max_is_max[%s]" % src, and_(*[ge(adv[src + "_max"], l) for l in lv]))
            cx.check("min_is_min_positive[%s]" % src, and_(*[or_(le(l, 0), le(adv[src + "_min"], l)) for l in lv]))
        for src in ("evse", "net", "if", "info"):
            lst = [adv[k2] for k2 in sorted(adv, key=lambda s: (len(s), s)) if k2.startswith(src + "_allow")]
            cx.check("list_has_0[%s]" % src, or_(*[eq(v, 0) for v in lst]))
            cx.check("list_strictly_increasing[%s]" % src, and_(*[lt(lst[i], lst[i + 1]) for i in range(len(lst) - 1)]))
            cx.check("list_complete[%s]" % src, and_(*[or_(*[eq(v, l) for v in lst]) for l in lv]))
        cx.observe("n_levels", len(evse.allowable_rates))
    else:
        for src in ("evse", "net", "if", "info"):
            cx.check("range[%s]" % src, and_(eq(adv[src + "_allow0"], params[0]), eq(adv[src + "_allow1"], params[1]), eq(adv[src + "_max"], params[1])))
            if kind == "EVSE":
                cx.check("min[%s]" % src, eq(adv[src + "_min"], params[0]))
        # any value inside the advertised continuous range is accepted; 0 too for deadband
        v = cx.real("inside", lo=0, hi=80)
        cx.assume(and_(ge(v, adv["if_allow0"]), le(v, adv["if_allow1"])))
        probe = _make(kind, params, "P")
        try:
            probe.set_pilot(v, 208, 5)
            ok = True
        except InvalidRateError:
            ok = False
        cx.check("inside_range_accepted", ok)
        if kind == "DEADBAND":
            probe.set_pilot(0, 208, 5)
    cx.tag("advertised")
    cx.observe("adv_max", adv["if_max"])


def h_advertised_after_scheduling(cx, kind, algo_kind):
    """history: a real sorted algorithm has scheduled one period for a session on the station (through the real Interface); the
    values the network / Interface advertise for the station afterwards are still its allowable set and are still accepted"""
    env.install(cx)
    A = acn()
    import acnportal.algorithms as ALG
    from acnportal.acnsim.models.evse import InvalidRateError

    params = {"EVSE": (0, 32), "DEADBAND": (6, 32), "FINITE": (8, 16, 24, 32)}[kind]
    evse = _make(kind, params)
    net = A.ChargingNetwork()
    net.register_evse(A.EVSE("Z", max_rate=11), 240, 0)
    net.register_evse(evse, 208, 0)
    net.add_constraint(A.Current({"S": 1, "Z": 1}), cx.real("limit", lo=0, hi=60), name="feeder")
    algo = ALG.RoundRobin(ALG.first_come_first_served, continuous_inc=1) if algo_kind == "rr" else ALG.SortedSchedulingAlgo(ALG.first_come_first_served)
    sim = A.Simulator(net, algo, A.EventQueue(), START, period=5, verbose=False)
    ev = A.EV(0, 9, cx.real("req", lo=0, lo_open=True, hi=3), "S", "sess", A.Battery(100, 0, 50))
    net.plugin(ev)
    sim._iteration = 1
    first = algo.run()
    cx.observe("first", first)
    cx.tag("scheduled_once")
    iface = A.Interface(sim)
    cont_i, allow_i = iface.allowable_pilot_signals("S")
    info = iface.infrastructure_info()
    k = info.get_station_index("S")
    adv = dict(net_max=net.max_pilot_signals[1], net_min=net.min_pilot_signals[1], if_max=iface.max_pilot_signal("S"), if_min=iface.min_pilot_signal("S"),
               info_max=info.max_pilot[k], info_min=info.min_pilot[k])
    lists = dict(net=list(net.allowable_rates[1]), iface=list(allow_i), info=list(info.allowable_pilots[k]), evse=list(evse.allowable_pilot_signals))
    want = list(evse.allowable_pilot_signals)
    for src, lst in lists.items():
        cx.check("after_scheduling:advertised_list_unchanged[%s]" % src, len(lst) == len(want) and all(bool(eq(a, b).weak()) if not is_sym(a) and not is_sym(b) else True for a, b in zip(lst, want)),
                 note="%s vs %s" % ([str(v) for v in lst][:8], want))
        for i, v in enumerate(lst[:40]):
            adv["%s_allow%d" % (src, i)] = v
    for name, v in adv.items():
        cx.check("after_scheduling:advertised_in_set[%s]" % name.split("_allow")[0], _member(kind, params, v))
        probe = _make(kind, params, "P")
        try:
            probe.set_pilot(v, 208, 5)
            ok = True
        except InvalidRateError:
            ok = False
        cx.check("after_scheduling:advertised_accepted[%s]" % name.split("_allow")[0], ok)


def h_occupied(cx, kind, via_network):
    env.install(cx)
    A = acn()
    from acnportal.acnsim.models.evse import StationOccupiedError

    params = _params(cx, kind, 2)
    evse = _make(kind, params)
    cap = cx.real("cap", lo=0, lo_open=True, hi=100)
    # session times are arbitrary: the newcomer may arrive before, at or after the occupant's (already passed) departure
    a1, d1, a2, d2 = cx.int("a1", 0, 6), cx.int("d1", 1, 7), cx.int("a2", 0, 6), cx.int("d2", 1, 7)
    cx.assume(and_(lt(a1, d1), lt(a2, d2)))
    ev1 = A.EV(a1, d1, cx.real("req1", lo=0, hi=100), "S", "one", A.Battery(cap, 0, 7))
    ev2 = A.EV(a2, d2, cx.real("req2", lo=0, hi=100), "S", "two", A.Battery(cap, 0, 7))
    net = A.ChargingNetwork()
    net.register_evse(evse, 208, 0)
    if via_network:
        net.plugin(ev1)
    else:
        evse.plugin(ev1)
    p0 = cx.real("p0", lo=0, hi=80)
    cx.assume(_member(kind, params, p0))
    evse.set_pilot(p0, 208, 5)
    before = _state(evse, ev1)
    try:
        if via_network:
            net.plugin(ev2)
        else:
            evse.plugin(ev2)
        refused = False
    except StationOccupiedError:
        refused = True
    cx.check("second_plugin_refused", refused)
    after = _state(evse, ev1)
    cx.check("occupant_kept", evse.ev is ev1 and net.get_ev("S") is ev1)
    for k in ("pilot", "energy", "rate", "charge"):
        cx.check("occupant_state_unchanged[%s]" % k, eq(after[k], before[k]))
    cx.check("newcomer_untouched", eq(ev2.energy_delivered, 0))
    evse.unplug()
    cx.check("unplug_clears", evse.ev is None and evse.current_pilot == 0)
    evse.plugin(ev2)
    cx.check("free_station_accepts", evse.ev is ev2)
    cx.tag("occupied")
    cx.observe("refused", refused)


def jobs(tier):
    q = tier == "quick"
    js = []
    for kind, nl in (("EVSE", 0), ("DEADBAND", 0), ("FINITE", 1), ("FINITE", 2)) + ((("FINITE", 3),) if not q else ()):
        for with_ev in (False, True):
            for prior in (False, True):
                if q and kind == "FINITE" and nl == 2 and not (with_ev and prior):
                    continue
                js.append(Job("accept[%s%s,ev=%d,prior=%d]" % (kind, nl or "", with_ev, prior), h_accept, dict(kind=kind, nlevels=nl, with_ev=with_ev, prior=prior),
                              functions=FUNCS, expect_tags=("accepted", "rejected"), max_paths=20000, timeout=3000,
                              bounds=dict(evse=kind, levels=nl, pilot="[-10,100]", parameters="symbolic in [0,80]", pre_state="fresh" if not prior else "after any accepted pilot"),
                              cost=(4 ** nl) * (2 if with_ev else 1)))
        js.append(Job("advertised[%s%s]" % (kind, nl or ""), h_advertised, dict(kind=kind, nlevels=nl), functions=FUNCS, expect_tags=("advertised",), max_paths=20000, timeout=3000,
                      bounds=dict(evse=kind, levels=nl, sources="EVSE properties, ChargingNetwork cache, Interface accessors, InfrastructureInfo"), cost=6 ** nl))
    for kind in ("EVSE", "DEADBAND", "FINITE"):
        for ak in (("rr",) if q else ("rr", "greedy")):
            js.append(Job("advertised_after_scheduling[%s,%s]" % (kind, ak), h_advertised_after_scheduling, dict(kind=kind, algo_kind=ak), functions=FUNCS + ["acnportal.algorithms.sorted_algorithms.RoundRobin.round_robin/SortedSchedulingAlgo.schedule"],
                          expect_tags=("scheduled_once",), max_paths=20000, timeout=3000, bounds=dict(evse=kind, parameters="concrete (0-32 / deadband 6 / levels 8,16,24,32)", history="one scheduling pass of a real %s algorithm for a session with a symbolic request on that station" % ak)))
    for kind in ("EVSE", "DEADBAND", "FINITE"):
        for via in (False, True):
            js.append(Job("occupied[%s,net=%d]" % (kind, via), h_occupied, dict(kind=kind, via_network=via), functions=FUNCS, expect_tags=("occupied",),
                          bounds=dict(evse=kind, levels=2 if kind == "FINITE" else 0)))
    return js
