"""C19 - stochastic space assignment never loses, duplicates or starves a session.

The real StochasticNetwork runs inside the real Simulator (real EventQueue, EVSEs, EVs, batteries) with symbolic arrival /
departure times, symbolic requested energies and symbolic pilots; random.choice is a nondeterministic input (every choice of
free station is explored).  A subclass records the network state through the public override points after every plugin /
unplug call and after every period (post_charging_update).

Oracles: (1) invariants written from the statement (each arrived EV in exactly one place, nobody waits beside a free station,
never-charged count, everything gone at the end); (2) a reference model of the parking lot (FIFO of waiters, first-come
first-served admission, early departure of satisfied EVs only when someone waits) stepped over the same event sequence, whose
state must equal the recorded state after every event and every period; (3) a second run with the same choices gives the
same trajectory.
"""
from symx import env, core
from symx.core import le, lt, ge, gt, eq, ne, and_, or_, implies, not_, iff, ite, is_sym
from symx.run import Job
from props import simlib
from props.simlib import acn, START

FUNCS = [
    "acnportal.contrib.acnsim.network.stochastic_network.StochasticNetwork.__init__/available_evses/plugin/unplug/post_charging_update",
    "acnportal.acnsim.network.charging_network.ChargingNetwork.plugin/unplug/update_pilots", "acnportal.acnsim.models.evse.BaseEVSE.plugin/unplug/set_pilot",
    "acnportal.acnsim.models.ev.EV.charge/fully_charged/update_station_id", "acnportal.acnsim.models.battery.Battery.charge",
] + simlib.SIM_FUNCS[:3]
ASSUMPTIONS = simlib.SIM_ASSUMPTIONS + [
    "random.choice(seq) is a nondeterministic input: one path per element of seq (all seeds); 'same seed' = the same sequence of choice results",
    "sessions: departure > arrival; requested energy in (0, 20] kWh; battery capacity = requested energy (an EV cannot take more than it asked for); period 60 min, 208 V",
    "the order in which the simulator processes events is taken from Simulator.event_history (its correctness is C01/C11)",
]
EXPECT_GLOBAL_TAGS = ("waited", "swap", "never_charged", "early_unplug", "late_unplug_of_early_leaver", "choice_of_station")


class Choices:
    """random-module stand-in for stochastic_network: choice() is an input; a second run replays the recorded choices"""

    def __init__(self, cx):
        self.cx, self.n, self.log, self.replay = cx, 0, [], None

    def choice(self, seq):
        seq = list(seq)
        if self.replay is not None:
            v = self.replay.pop(0)
            assert v in seq
            return v
        self.n += 1
        if len(seq) > 1:
            self.cx.tag("choice_of_station")
        v = self.cx.choice("choice%d" % self.n, seq)
        self.log.append(v)
        return v


def run_once(cx, n_st, n_sess, H, early, times, reqs, choices, table, algo_kind):
    import acnportal.contrib.acnsim.network.stochastic_network as SN

    A = acn()
    rec = []
    simref = []

    class RecNet(SN.StochasticNetwork):
        def _state(self, kind, who=None):
            return dict(kind=kind, who=who, conn={sid: (self.get_ev(sid).session_id if self.get_ev(sid) is not None else None) for sid in self.station_ids},
                        waiting=list(self.waiting_queue.keys()), never=self.never_charged, early=self.early_unplug, swaps=self.swaps,
                        t=simref[0].iteration if simref else None)

        def plugin(self, ev, station_id=None):
            super().plugin(ev)
            rec.append(self._state("plugin", ev.session_id))

        def unplug(self, station_id, session_id=None):
            super().unplug(station_id, session_id)
            rec.append(self._state("unplug", session_id))

        def post_charging_update(self):
            full = {sid: bool(self.get_ev(sid).fully_charged) for sid in self.station_ids if self.get_ev(sid) is not None}
            before = {sid: (self.get_ev(sid).session_id if self.get_ev(sid) is not None else None) for sid in self.station_ids}
            n0 = len(rec)
            super().post_charging_update()
            del rec[n0:]  # the unplug calls made by early departure are summarised by the period record
            st = self._state("period")
            st["full"] = full
            st["before"] = before  # who was connected while this period's charging took place
            rec.append(st)

    net = RecNet(early_departure=early)
    stations = [("S%d" % j, "EVSE", 208, 0) for j in range(n_st)]
    for sid, kind, V, ph in stations:
        net.register_evse(A.EVSE(sid, max_rate=32), V, ph)
    evs = []
    for i in range(n_sess):
        a, d = times[i]
        evs.append(A.EV(a, d, reqs[i], "S0", "s%d" % i, A.Battery(reqs[i], 0, 100)))
    if algo_kind == "uncontrolled":
        from acnportal.algorithms import UncontrolledCharging

        algo = UncontrolledCharging()
    else:
        algo = simlib.Scripted(cx, stations, max_recompute=1, length=1, positive=True, table=table).algo
    sim = simlib.make_sim(cx, net, algo, evs, period=60)
    simref.append(sim)
    sim.run()
    return sim, net, rec, evs


def h_lot(cx, n_st, n_sess, H, early, algo_kind, second_run, arrivals=None, d0=None):
    env.install(cx)
    import acnportal.contrib.acnsim.network.stochastic_network as SN

    choices = Choices(cx)
    cx.patch(SN, "random", choices, sym_only=False)
    times = simlib.sym_times(cx, n_sess, H, station_of=list(range(n_sess)))  # no non-overlap assumption: all sessions may coincide
    # sessions are interchangeable (same parameter domains), so arrivals are taken in non-decreasing order without loss of
    # generality; a job may pin the arrival pattern (shard) - the union of the shards of a tier is listed in its bounds
    for i in range(n_sess - 1):
        cx.assume(le(times[i][0], times[i + 1][0]))
    if arrivals is not None:
        for i in range(n_sess):
            cx.assume(eq(times[i][0], arrivals[i]))
    if d0 is not None:
        cx.assume(eq(times[0][1], d0))
    reqs = [cx.real("req%d" % i, lo=0, lo_open=True, hi=20) for i in range(n_sess)]
    table = {}
    sim, net, rec, evs = run_once(cx, n_st, n_sess, H, early, times, reqs, choices, table, algo_kind)
    sids = ["S%d" % j for j in range(n_st)]
    by_id = {ev.session_id: ev for ev in evs}
    arrival = {ev.session_id: times[i][0] for i, ev in enumerate(evs)}
    departure = {ev.session_id: times[i][1] for i, ev in enumerate(evs)}

    # ---- reference model stepped over the processed events --------------------------------------------------------------
    conn = {sid: None for sid in sids}
    waiting, gone, never, early_n, swaps = [], set(), 0, 0, 0
    early_gone = set()
    arrived = set()
    events = [(e.event_type, e.ev.session_id if hasattr(e, "ev") else None, e.timestamp) for e in sim.event_history]
    ei = 0
    ok_model = True

    def compare(label, st):
        same = st["conn"] == conn and st["waiting"] == waiting and st["never"] == never and st["early"] == early_n and st["swaps"] == swaps
        cx.check(label, same, note="recorded %s | model conn=%s waiting=%s never=%d early=%d swaps=%d" % (
            {k: st[k] for k in ("kind", "who", "conn", "waiting", "never", "early", "swaps")}, conn, waiting, never, early_n, swaps))
        return same

    for st in rec:
        if st["kind"] in ("plugin", "unplug"):
            # next processed plugin/unplug event
            while ei < len(events) and events[ei][0] not in ("Plugin", "Unplug"):
                ei += 1
            if ei >= len(events):
                cx.check("every_network_call_has_an_event", False)
                break
            typ, sid_, ts = events[ei]
            ei += 1
            cx.check("call_matches_event", typ.lower() == st["kind"] and sid_ == st["who"], note="%s vs %s" % ((typ, sid_), (st["kind"], st["who"])))
            if typ == "Plugin":
                arrived.add(sid_)
                free = [s for s in sids if conn[s] is None]
                if free:
                    # the EV goes to ONE free station: whichever the (arbitrary) choice named - it must have been free
                    took = [s for s in sids if st["conn"][s] == sid_]
                    cx.check("plugged_into_one_free_station", len(took) == 1 and took[0] in free, note="took %s, free %s" % (took, free))
                    if len(took) == 1 and took[0] in free:
                        conn[took[0]] = sid_
                else:
                    waiting.append(sid_)
                    cx.tag("waited")
            else:
                if sid_ in waiting:
                    waiting.remove(sid_)
                    never += 1
                    gone.add(sid_)
                    cx.tag("never_charged")
                elif sid_ in conn.values():
                    s = [k for k, v in conn.items() if v == sid_][0]
                    conn[s] = None
                    gone.add(sid_)
                    if waiting:
                        conn[s] = waiting.pop(0)
                        swaps += 1
                        cx.tag("swap")
                else:
                    cx.tag("late_unplug_of_early_leaver")
                    cx.check("unplug_of_absent_ev_only_after_early_departure", sid_ in gone)
            if not compare("state_after_event=model", st):
                ok_model = False
                break
        else:
            if early:
                for s in sids:
                    if conn[s] is not None and st["full"].get(s) and waiting:
                        gone.add(conn[s])
                        early_gone.add(conn[s])
                        conn[s] = waiting.pop(0)
                        swaps += 1
                        early_n += 1
                        cx.tag("early_unplug")
            if not compare("state_after_period=model", st):
                ok_model = False
                break
            # ---- invariants from the statement, at the end of period t (events with timestamp <= t processed)
            t = st["t"]
            places = {}
            for s in sids:
                if st["conn"][s] is not None:
                    places.setdefault(st["conn"][s], []).append(s)
            for w in st["waiting"]:
                places.setdefault(w, []).append("queue")
            cx.check("no_ev_in_two_places", all(len(v) == 1 for v in places.values()), note=str(places))
            cx.check("nobody_waits_beside_a_free_station", not (st["waiting"] and any(st["conn"][s] is None for s in sids)))
            for sid_, ev in by_id.items():
                present = sid_ in places
                # arrived and not yet due to depart  =>  present, unless it left early (only with early_departure and only when satisfied)
                inside = and_(le(arrival[sid_], t), gt(departure[sid_], t))
                if present:
                    cx.check("present=>arrived_and_not_departed", inside)
                else:
                    left_early = early and sid_ in early_gone
                    cx.check("absent=>not_arrived_or_departed_or_left_early", or_(not_(inside), left_early))
                    if left_early:
                        cx.check("early_leaver_was_satisfied", ev.fully_charged)
    # ---- end of run
    cx.check("all_stations_vacant_at_end", all(net.get_ev(s) is None for s in sids))
    cx.check("queue_empty_at_end", len(net.waiting_queue) == 0)
    cx.check("every_session_gone", ok_model and gone == set(by_id))
    charged = [sid_ for sid_, ev in by_id.items() if not isinstance(ev.energy_delivered, int) or ev.energy_delivered != 0]
    cx.check("never_charged_count", net.never_charged == never)
    for sid_, ev in by_id.items():
        cx.check("no_more_than_requested", le(ev.energy_delivered, ev.requested_energy + 1e-9))
    cx.observe("rates", sim.charging_rates[:, : sim.iteration])
    cx.observe("counters", [net.never_charged, net.early_unplug, net.swaps])
    cx.observe("energies", [ev.energy_delivered for ev in evs])
    if second_run:
        # same inputs, same choice sequence => same run
        choices.replay = list(choices.log)
        sim2, net2, rec2, evs2 = run_once(cx, n_st, n_sess, H, early, times, reqs, choices, table, algo_kind)
        cx.check("rerun:same_iteration", sim2.iteration == sim.iteration)
        cx.check("rerun:same_states", [{k: v for k, v in r.items() if k != "full"} for r in rec2] == [{k: v for k, v in r.items() if k != "full"} for r in rec])
        T = min(sim.iteration, sim2.iteration)
        for j in range(n_st):
            for t in range(T):
                cx.check("rerun:same_rates", eq(sim2.charging_rates[j, t], sim.charging_rates[j, t]))
        for e1, e2 in zip(evs, evs2):
            cx.check("rerun:same_energy", eq(e1.energy_delivered, e2.energy_delivered))
        cx.check("rerun:same_counters", (net2.never_charged, net2.early_unplug, net2.swaps) == (net.never_charged, net.early_unplug, net.swaps))


def jobs(tier):
    import itertools

    q = tier == "quick"
    js = []

    def shards(n_sess, H):
        return [a for a in itertools.combinations_with_replacement(range(H), n_sess)]

    cfgs = []
    if q:
        cfgs += [(1, 2, 3, True, "scripted", True, None), (1, 3, 3, False, "scripted", False, None)]
        cfgs += [(2, 3, 3, True, "uncontrolled", False, a) for a in [(0, 0, 0), (0, 0, 1), (0, 1, 1)]]
        cfgs += [(2, 3, 3, True, "scripted", False, a) for a in [(0, 0, 0), (0, 1, 2)]]
        cfgs += [(2, 3, 2, False, "scripted", True, None)]
    else:
        cfgs += [(1, 2, 4, e, a, True, None) for e in (False, True) for a in ("scripted", "uncontrolled")]
        cfgs += [(1, 3, 4, True, "scripted", False, a) for a in shards(3, 4)]
        cfgs += [(2, 3, 4, True, "scripted", False, a) for a in shards(3, 4)] + [(2, 3, 4, False, "uncontrolled", False, a) for a in shards(3, 4)]
        cfgs += [(2, 3, 3, True, "scripted", True, a) for a in shards(3, 3)]
        cfgs += [(2, 4, 3, True, "uncontrolled", False, a) for a in shards(4, 3)]
        cfgs += [(1, 4, 3, True, "uncontrolled", False, a) for a in shards(4, 3) if a[0] == 0]
    for n_st, n_sess, H, early, algo, second, arr in cfgs:
        # big shards are split once more by the first session's departure
        d0s = [None] if (n_st == 1 and n_sess <= 2) else list(range((arr[0] if arr else 0) + 1, H + 1))
        for d0 in d0s:
            if arr is None and d0 is not None and d0 < 1:
                continue
            js.append(Job("lot[st=%d,sess=%d,H=%d,early=%d,%s,rerun=%d,arr=%s,d0=%s]" % (n_st, n_sess, H, early, algo, second, "any" if arr is None else "".join(map(str, arr)), "any" if d0 is None else d0), h_lot,
                          dict(n_st=n_st, n_sess=n_sess, H=H, early=early, algo_kind=algo, second_run=second, arrivals=arr, d0=d0), functions=FUNCS, max_paths=400000, timeout=10000,
                          bounds=dict(stations=n_st, sessions=n_sess, horizon=H, early_departure=early, scheduler=algo, second_run=second,
                                      arrivals="symbolic (non-decreasing wlog)" if arr is None else list(arr), departures="symbolic in (arrival, H]" + ("" if d0 is None else ", first session's departure = %d" % d0)),
                          cost=(n_st ** n_sess) * (H ** n_sess)))
    return js
