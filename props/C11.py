"""C11 - the event queue returns events by time then precedence, for every interleaving.

The real EventQueue (heapq on (timestamp, event) tuples, Event.__lt__) is driven through its public methods by every
operation sequence inside the bound; timestamps and query times are symbolic integers, so each path of a sequence is one
ordering pattern of the timestamps and z3 decides the obligations for all values with that pattern.
Oracle: a pending multiset kept by the harness; after a JSON round trip (public to_json()/from_json()) the SAME model is
continued on the restored object, events being matched by (type, session id, timestamp).
"""
from symx import env, core
from symx.core import le, lt, ge, gt, eq, ne, and_, or_, implies, not_, iff, ite, is_sym
from symx.run import Job
from props.simlib import acn

FUNCS = [
    "acnportal.acnsim.events.event_queue.EventQueue.__init__/add_event/add_events/get_event/get_current_events/__len__/empty/get_last_timestamp/queue/_to_dict/_from_dict",
    "acnportal.acnsim.events.event.Event.__lt__/_to_dict/_from_dict (+EVEvent, PluginEvent, UnplugEvent, RecomputeEvent)",
    "acnportal.acnsim.base.BaseSimObj.to_json/from_json/_to_registry/_from_registry/_build_from_id",
    "heapq.heappush/heappop (real, on tuples with symbolic first component)",
]
ASSUMPTIONS = [
    "timestamps and query times are symbolic integers in [0,3]; event kinds and the operation sequence are enumerated by forking inside the bound",
    "json.dumps/json.loads inside acnportal.acnsim.base are modelled structurally (tuple->list, dict keys->str, identity on numbers) in symbolic runs; concrete replays use the real json module",
    "get_event on an empty queue (IndexError) is not exercised",
    "events with equal timestamp and equal precedence may be returned in either order",
]
PREC = {"Unplug": 0, "Plugin": 10, "Recompute": 20}
OPS = ["addU", "addP", "addR", "get", "cur", "json", "last"]
TMAX = 3


class Model:
    def __init__(self):
        self.pending = []  # dict(kind, sid, ts)
        self.n = 0
        self.share = False  # every EV event refers to the SAME car / session (re-plug in the period it leaves, reused session ids)
        self.car = None


def _new_event(cx, model, kind, tag):
    A = acn()
    model.n += 1
    ts = cx.int("ts%d" % model.n, 0, TMAX)
    sid = None
    if kind == "Recompute":
        ev = A.RecomputeEvent(ts)
    else:
        if model.share and model.car is not None:
            car = model.car
            sid = car.session_id
        else:
            sid = "sess%d" % model.n
            car = A.EV(0, 9, 5.0, "st%d" % model.n, sid, A.Battery(50, 0, 7))
            model.car = car
        ev = (A.PluginEvent if kind == "Plugin" else A.UnplugEvent)(ts, car)
    model.pending.append(dict(kind=kind, sid=sid, ts=ts))
    return ev


def _key_le(a, b):
    """(ts, precedence) of a <= that of b, lexicographically"""
    pa, pb = PREC[a["kind"]], PREC[b["kind"]]
    if pa <= pb:
        return le(a["ts"], b["ts"])
    return lt(a["ts"], b["ts"])


def _match(cx, model, ev, label):
    """find (and remove) the pending model entry the returned event corresponds to"""
    kind = ev.event_type
    sid = getattr(ev, "session_id", None) if kind != "Recompute" else None
    cands = [p for p in model.pending if p["kind"] == kind and p["sid"] == sid]
    if kind != "Recompute" and len(cands) <= 1:
        if len(cands) != 1:
            cx.check(label + ":returned_event_is_pending", False, note="no pending %s for %s" % (kind, sid))
            return None
        ent = cands[0]
        cx.check(label + ":timestamp_attr", eq(ev.timestamp, ent["ts"]))
        cx.check(label + ":precedence_attr", ev.precedence == PREC[kind])
    else:
        # recompute events (and several events of one kind for one shared car) carry no identity: any pending one with this timestamp
        cx.check(label + ":returned_event_is_pending", or_(*[eq(ev.timestamp, p["ts"]) for p in cands]) if cands else False)
        ent = None
        for p in cands:
            if cx.mode == "conc":
                same = eq(ev.timestamp, p["ts"]).weak()
            else:
                e = eq(ev.timestamp, p["ts"])
                same = bool(core.SymBool(e.z3())) if e.symbolic() else e.weak()
            if same:
                ent = p
                break
        if ent is None:
            return None
        cx.check(label + ":precedence_attr", ev.precedence == PREC[kind])
    model.pending.remove(ent)
    return ent


def _observers(cx, model, q, label, last=False):
    cx.check(label + ":len", len(q) == len(model.pending))
    cx.check(label + ":empty", q.empty() is (len(model.pending) == 0))
    if not last:
        return
    last = q.get_last_timestamp()
    if not model.pending:
        cx.check(label + ":last_timestamp_none", last is None)
    else:
        cx.check(label + ":last_timestamp_is_max", and_(last is not None, *[ge(last, p["ts"]) for p in model.pending]) if last is not None else False)
        if last is not None:
            cx.check(label + ":last_timestamp_is_pending", or_(*[eq(last, p["ts"]) for p in model.pending]))


def h_queue(cx, fixed_ops, n_free, init=1, share=False):
    env.install_json(cx)
    A = acn()
    model = Model()
    model.share = share
    # the constructor path (add_events) with `init` initial events of forked kinds
    q = A.EventQueue([_new_event(cx, model, cx.choice("k_init%d" % j, ["Unplug", "Plugin", "Recompute"]), "init") for j in range(init)])
    ops = list(fixed_ops)
    log = []
    nq = 0
    for i in range(len(fixed_ops) + n_free):
        if i < len(fixed_ops):
            op = ops[i]
        else:
            avail = [o for o in OPS if not (o in ("get", "json", "cur") and not model.pending)]
            op = cx.choice("op%d" % i, avail)
        lab = "%d:%s" % (i, op)
        if op == "addB":
            # bulk insertion into the queue as it is now (add_events), two events of different kinds
            q.add_events([_new_event(cx, model, "Recompute", lab), _new_event(cx, model, "Unplug", lab)])
            cx.tag("batch")
        elif op in ("addU", "addP", "addR"):
            q.add_event(_new_event(cx, model, {"U": "Unplug", "P": "Plugin", "R": "Recompute"}[op[-1]], lab))
        elif op == "last":
            _observers(cx, model, q, lab, last=True)
            cx.tag("last")
        elif op == "get":
            if not model.pending:
                continue
            before = list(model.pending)
            ev = q.get_event()
            ent = _match(cx, model, ev, lab)
            if ent is not None:
                cx.check(lab + ":minimal_in_(time,precedence)", and_(*[_key_le(ent, p) for p in before if p is not ent]))
            log.append((ev.timestamp, ev.event_type))
            cx.tag("get")
        elif op == "cur":
            nq += 1
            t = cx.int("t%d" % nq, 0, TMAX)
            before = list(model.pending)
            evs = q.get_current_events(t)
            got = []
            for ev in evs:
                ent = _match(cx, model, ev, lab)
                if ent is not None:
                    got.append(ent)
                log.append((ev.timestamp, ev.event_type))
            cx.check(lab + ":all_returned_are_due", and_(*[le(g["ts"], t) for g in got]))
            cx.check(lab + ":all_left_are_later", and_(*[gt(p["ts"], t) for p in model.pending]))
            cx.check(lab + ":returned_in_order", and_(*[_key_le(got[j], got[j + 1]) for j in range(len(got) - 1)]))
            cx.check(lab + ":count", len(got) == len(evs) and len(got) + len(model.pending) == len(before))
            if len(evs) >= 2:
                cx.tag("cur_multi")
            if model.pending and evs:
                cx.tag("cur_partial")
        elif op == "json":
            if cx.mode == "sym":
                q = A.EventQueue.from_json(q.to_json())
            else:
                import warnings

                with warnings.catch_warnings():
                    warnings.simplefilter("ignore")
                    q = A.EventQueue.from_json(q.to_json())
            cx.tag("json")
        _observers(cx, model, q, lab)
    # drain: whatever is left comes out in order
    before = list(model.pending)
    out = []
    while model.pending and len(q) > 0:
        ev = q.get_event()
        ent = _match(cx, model, ev, "drain")
        if ent is None:
            break
        out.append(ent)
        log.append((ev.timestamp, ev.event_type))
    cx.check("drain:complete", len(out) == len(before) and q.empty())
    cx.check("drain:in_order", and_(*[_key_le(out[j], out[j + 1]) for j in range(len(out) - 1)]))
    if len(before) >= 2:
        cx.tag("drain_multi")
    cx.observe("log", [[a, b] for a, b in log])


def jobs(tier):
    q = tier == "quick"
    js = []
    n_free = 1 if q else 2
    firsts = [(a, b) for a in OPS for b in OPS if not (a == "last" and b == "last")]
    for f in firsts:
        n = len(f) + n_free
        js.append(Job("ops[%s+%d]" % (",".join(f), n_free), h_queue, dict(fixed_ops=f, n_free=n_free, init=1), functions=FUNCS, max_paths=2000000, timeout=12000,
                      expect_tags=(), bounds=dict(initial_events=1, operations=n, first_ops=list(f), alphabet=OPS, timestamps="[0,%d]" % TMAX, then="drain by get_event"),
                      cost=(3 if f[0].startswith("add") else 1) * (3 if f[1].startswith("add") else 1)))
    # constructor with two events + json first (restore-then-continue), all continuations
    for f in ([("json",), ("cur",)] if q else [("json",), ("cur",), ("json", "addP"), ("json", "addU"), ("addR", "json")]):
        js.append(Job("init2[%s+%d]" % (",".join(f), n_free), h_queue, dict(fixed_ops=f, n_free=n_free, init=2), functions=FUNCS, max_paths=2000000, timeout=12000,
                      bounds=dict(initial_events=2, operations=len(f) + n_free, first_ops=list(f), alphabet=OPS, timestamps="[0,%d]" % TMAX), cost=9))
    # four pending events (the latest inserted before earlier ones is among the orderings), then the observers
    for f in ([("addR", "addU", "last")] if q else [("addR", "addU", "last"), ("addP", "addP", "last"), ("addU", "addR", "json", "last")]):
        nf4 = 0 if q else 1
        js.append(Job("init2_four_pending[%s+%d]" % (",".join(f), nf4), h_queue, dict(fixed_ops=f, n_free=nf4, init=2), functions=FUNCS, max_paths=2000000, timeout=12000,
                      bounds=dict(initial_events=2, operations=len(f) + nf4, first_ops=list(f), alphabet=OPS, timestamps="[0,%d]" % TMAX), cost=27))
    # bulk insertion (add_events) in the middle of a history, with the observers before and after
    for f in ([("last", "addB", "last"), ("get", "addB", "last"), ("addB", "cur")] if q else [("last", "addB", "last"), ("get", "addB", "last"), ("addB", "cur"), ("cur", "addB", "last"), ("addB", "json", "last"), ("json", "addB", "get")]):
        js.append(Job("batch[%s+%d]" % (",".join(f), n_free), h_queue, dict(fixed_ops=f, n_free=n_free, init=1), functions=FUNCS, max_paths=2000000, timeout=12000, expect_tags=("batch",),
                      bounds=dict(initial_events=1, operations=len(f) + n_free, first_ops=list(f), alphabet=OPS + ["addB = add_events([Recompute, Unplug])"], timestamps="[0,%d]" % TMAX), cost=9))
    # every EV event belongs to one and the same session (an unplug and a plug-in of the same car may be pending for the same period)
    for f in ([("cur",), ("get",), ("json",)] if q else [("cur",), ("get",), ("json",), ("addP", "cur"), ("addU", "get"), ("addU", "json"), ("addP", "json")]):
        js.append(Job("shared_car[%s+%d]" % (",".join(f), n_free), h_queue, dict(fixed_ops=f, n_free=n_free, init=2, share=True), functions=FUNCS, max_paths=2000000, timeout=12000,
                      bounds=dict(initial_events=2, operations=len(f) + n_free, first_ops=list(f), alphabet=OPS, timestamps="[0,%d]" % TMAX, sessions="all EV events share one EV object / session id"), cost=9))
    return js
