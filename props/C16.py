"""C16 - the predefined site networks never admit more power than the transformer ratings.

The real site factories (caltech_acn, jpl_acn, office001_acn; basic and real EVSE types) build the real ChargingNetwork with
SYMBOLIC transformer capacities (the limits become symbolic terms through the factories' own arithmetic), and the real
ChargingNetwork.is_feasible is executed on a symbolic schedule 0 <= x_j <= max pilot of station j (52-54 currents per period).
The acceptance condition is the conjunction of the cone constraints |z_i| <= L_i + tol_i that the real code compares; the
engine records each of them as (Re z_i, Im z_i, L_i + tol_i), all linear in (x, capacity).

Verdict per transformer: accepted => sum_{j behind T} V_LL x_j / 1000 <= capacity (+ tolerance).  The hypothesis is weakened
soundly to linear consequences Re(z e^{-i phi}) <= L of each cone (12 directions, refined CEGAR-style where a spurious model
shows up), so the query is linear real arithmetic over all currents and the capacity; `unsat` therefore holds for the exact
cones too.  A model that satisfies the exact cones is a genuine counterexample and is replayed on the real is_feasible.

Membership (which EVSE is behind which transformer / in which pod / sub-panel) is written independently in this file
(site documentation), not read from the factories.
"""
import fractions
import math

import z3

from symx import env, core
from symx.core import le, lt, ge, gt, eq, ne, and_, or_, implies, not_, iff, ite, is_sym, Obligation
from symx.run import Job

FUNCS = [
    "acnportal.acnsim.network.sites.caltech_acn.caltech_acn", "acnportal.acnsim.network.sites.jpl_acn.jpl_acn/_add_line2line_evses/_delta_wye_transformer",
    "acnportal.acnsim.network.sites.office001_acn.office001_acn", "acnportal.acnsim.models.evse.get_evse_by_type",
    "acnportal.acnsim.network.current.Current.__init__/__add__/__sub__/__mul__", "acnportal.acnsim.network.charging_network.ChargingNetwork.register_evse/add_constraint/constraint_current/is_feasible",
]
ASSUMPTIONS = [
    "nominal system: 120 V line-to-neutral, V_LL = sqrt(3)*120 V (what '208/120' denotes); with the literal 208 V the admitted power is 208/(120*sqrt(3)) = 1.00074 x rating, which is the rounding of the nominal voltage, not a defect",
    "the rating is compared including the feasibility tolerance the network itself grants: P <= cap + 3*120*max(1e-5, 1e-7*L)/1000 (+1e-9 relative for the rounding of cos/sin/sqrt constants)",
    "hypothesis 'schedule accepted' is weakened to finitely many linear consequences of each cone constraint (sound for implication); Python floats modelled as exact reals",
    "schedules: 0 <= x <= each station's max pilot (continuous in between: finite-rate sets are a subset); capacities symbolic in [1, 2000] kW; T = 1 (quick) / 2 (thorough) periods",
    "pod / sub-panel ratings: the independently written phasor sum and rating must coincide (to 1e-9 A) with one of the constraints the real is_feasible enforces",
]
EXPECT_GLOBAL_TAGS = ("site:caltech", "site:jpl", "site:office001", "refined_or_direct")
VLN = 120.0
VLL = math.sqrt(3) * 120.0
SHRINK = 1 - 1e-12

# ---- independent site documentation --------------------------------------------------------------------------------------


def doc_caltech(ids):
    cc = ["CA-322", "CA-493", "CA-496", "CA-320", "CA-495", "CA-321", "CA-323", "CA-494"]
    av = ["CA-324", "CA-325", "CA-326", "CA-327", "CA-489", "CA-490", "CA-491", "CA-492"]
    return dict(n=54, transformers={"transformer_cap": [s for s in ids if s.startswith("CA-")]},
                panels=[("CC Pod", 80, {30: cc}), ("AV Pod", 80, {30: av})])


def doc_office(ids):
    return dict(n=8, transformers={"transformer_cap": list(ids)}, panels=[])


def doc_jpl(ids):
    t1 = [s for s in ids if s.startswith("AG-1F")]
    t34 = [s for s in ids if s.startswith("AG-3F") or s.startswith("AG-4F")]
    sp1 = {30: ["AG-1F12", "AG-1F14"], -90: [], 150: ["AG-1F11", "AG-1F13"]}
    sp2 = {30: ["AG-1F03", "AG-1F06"], -90: ["AG-1F01", "AG-1F04"], 150: ["AG-1F02", "AG-1F05"]}
    f3 = {30: ["AG-3F%d" % k for k in (16, 17, 20, 23, 25, 26, 29, 33)], -90: ["AG-3F%d" % k for k in (18, 21, 27, 30, 31)], 150: ["AG-3F%d" % k for k in (15, 19, 22, 24, 28, 32)]}
    f4 = {30: ["AG-4F%d" % k for k in (35, 36, 39, 42, 44, 45, 48, 52)], -90: ["AG-4F%d" % k for k in (37, 40, 46, 49, 50)], 150: ["AG-4F%d" % k for k in (34, 38, 41, 43, 47, 51)]}
    panels = []
    for name, rating, grp in (("First Floor SP1", 100, sp1), ("First Floor SP2", 100, sp2), ("Third Floor Panel", 225, f3), ("Fourth Floor Panel", 225, f4)):
        # line currents of a panel with line-to-line loads: I_a = I_ab - I_ca, I_b = I_bc - I_ab, I_c = I_ca - I_bc
        for ph, (plus, minus) in (("a", (30, 150)), ("b", (-90, 30)), ("c", (150, -90))):
            panels.append(("%s I_%s" % (name, ph), rating, {("+", plus): grp[plus], ("-", minus): grp[minus]}))
    return dict(n=52, transformers={"first_transformer_cap": t1, "third_fourth_transformer_cap": t34}, panels=panels)


SITES = {
    "caltech": ("caltech_acn", ("transformer_cap",), doc_caltech),
    "office001": ("office001_acn", ("transformer_cap",), doc_office),
    "jpl": ("jpl_acn", ("first_transformer_cap", "third_fourth_transformer_cap"), doc_jpl),
}


def R(v):
    f = fractions.Fraction(float(v))
    return z3.RealVal("%d/%d" % (f.numerator, f.denominator))


def rat(m, e):
    v = m.eval(core.toz3(e) if not isinstance(e, z3.ExprRef) else e, model_completion=True)
    if z3.is_algebraic_value(v):
        v = v.approx(30)
    return fractions.Fraction(v.numerator_as_long(), v.denominator_as_long())


def h_site(cx, site, basic, T, concrete_caps=False, only_last=False, reload=False):
    env.install(cx)
    if reload:
        env.install_json(cx)
    import numpy as np
    import acnportal.acnsim.network.sites as S

    fname, capnames, docf = SITES[site]
    caps = {}
    defaults = {"transformer_cap": 150 if site == "caltech" else 50, "first_transformer_cap": 45, "third_fourth_transformer_cap": 150}
    for c in capnames:
        caps[c] = defaults[c] if concrete_caps else cx.real(c, lo=1, hi=2000)
    net = getattr(S, fname)(basic_evse=basic, **caps)
    if reload:
        # the site network after a round trip through the public to_json() / from_json()
        import warnings
        import acnportal.acnsim as _A

        with warnings.catch_warnings():
            warnings.simplefilter("ignore")
            net = _A.ChargingNetwork.from_json(net.to_json())
        cx.tag("site:reloaded")
    cx.tag("site:" + site)
    ids = list(net.station_ids)
    doc = docf(ids)
    n = len(ids)
    # ---- structural part (concrete facts about the real network object)
    cx.check("station_count", n == doc["n"], note="%d stations" % n)
    angles = [float(a) for a in net._phase_angles]
    cx.check("every_evse_has_a_line_to_line_angle", all(a in (30.0, -90.0, 150.0) for a in angles), note=str(sorted(set(angles))))
    names = list(net.constraint_index)
    covered = set()
    for tname, members in doc["transformers"].items():
        label = {"transformer_cap": "Secondary", "first_transformer_cap": "First Floor Transformer Secondary", "third_fourth_transformer_cap": "Third/Fourth Floor Transformer Secondary"}[tname]
        rows = [i for i, nm in enumerate(names) if nm.startswith(label)]
        cx.check("three_secondary_rows[%s]" % tname, len(rows) == 3, note=str([names[i] for i in rows]))
        for sid in members:
            j = ids.index(sid)
            col = [net.constraint_matrix[i, j] for i in rows]
            ok = sum(1 for v in col if not (isinstance(v, (int, float)) and v == 0)) == 2  # a line-to-line load loads two phases
            cx.check("evse_covered_by_its_transformer", ok, note="%s: secondary coefficients %s" % (sid, col))
            covered.add(sid)
    cx.check("every_evse_behind_a_transformer", covered == set(ids), note=str(sorted(set(ids) - covered)))
    # ---- symbolic schedule, real feasibility check
    maxp = [float(v) for v in net.max_pilot_signals]
    # only_last: a long schedule (hundreds of periods) that is idle except in its LAST period, which is symbolic
    X = [[(0 if (only_last and t < T - 1) else cx.real("x%d_%d" % (j, t), lo=0, hi=maxp[j])) for t in range(T)] for j in range(n)]
    M = np.empty((n, T), dtype=object if cx.mode == "sym" else float)
    for j in range(n):
        for t in range(T):
            M[j, t] = X[j][t]
    # ---- history: an earlier, unrelated feasibility query on the same network object with loose tolerances (e.g. a scheduler probing
    # the site); what it leaves in the object must not weaken the queries that are judged
    net.is_feasible(np.zeros((n, 1)), violation_tolerance=5.0, relative_tolerance=0.25)
    net.is_feasible(np.zeros((n, 1)), linear=True, violation_tolerance=5.0, relative_tolerance=0.25)
    # ---- the network's documented "more conservative" linear mode must respect the ratings as well: there acceptance is a
    # conjunction of linear inequalities (|A| x <= L + tol), added to the solver exactly as the real code computed it
    acc_lin = net.is_feasible(M, linear=True)
    for tname, members in doc["transformers"].items():
        cap = caps[tname]
        L = cap * 1000 / 3 / VLN
        bound = cap + 3 * VLN * core.sym_max(1e-5, 1e-7 * L) / 1000 + 1e-9 * cap
        for t in range(T):
            P = sum(VLL * X[ids.index(sid)][t] for sid in members) / 1000
            label = "accepted_in_linear_mode=>power<=rating[%s,t=%d]" % (tname, t)
            if cx.mode == "conc":
                cx.check(label, or_(not bool(acc_lin), le(P, bound)))
                continue
            import time as _t

            t0 = _t.time()
            cx.solver.push()
            cx.solver.add(core.toz3(acc_lin) if is_sym(acc_lin) else z3.BoolVal(bool(acc_lin)))
            r = cx._check(z3.Not(le(P, bound).z3()), timeout=120000)
            st_ = "unsat" if r == z3.unsat else ("sat" if r == z3.sat else "unknown")
            asg = cx.model_assignment(cx.solver.model()) if r == z3.sat else None
            cx.solver.pop()
            cx.obligations.append(Obligation(label, st_, asg, None, _t.time() - t0))
    if cx.mode == "sym":
        cx.cones = []
    accepted = net.is_feasible(M)
    cones = cx.cones if cx.mode == "sym" else []
    cx.cones = None
    if cx.mode == "sym":
        Tsym = 1 if only_last else T  # comparisons on the all-zero (concrete) periods are decided without the solver and are not recorded
        cx.check("one_cone_per_constraint_and_period", len(cones) == len(names) * Tsym, note="%d cones for %d constraints x %d symbolic periods" % (len(cones), len(names), Tsym))
        dirs = [math.radians(d) for d in range(0, 360, 30)]
        cone_terms = []
        for re, im, L, strict in cones:
            rz, iz, lz = core.toz3(re), core.toz3(im), core.toz3(L)
            cone_terms.append((rz, iz, lz))
            for d in dirs:
                cx.solver.add(R(math.cos(d) * SHRINK) * rz + R(math.sin(d) * SHRINK) * iz <= lz)
        cx.model = None
    # ---- transformer ratings
    tol_of = lambda L: core.sym_max(1e-5, 1e-7 * L)
    refined = 0
    for tname, members in doc["transformers"].items():
        cap = caps[tname]
        L = cap * 1000 / 3 / VLN
        bound = cap + 3 * VLN * tol_of(L) / 1000 + 1e-9 * cap
        for t in range(T):
            P = sum(VLL * X[ids.index(sid)][t] for sid in members) / 1000
            label = "accepted=>power<=rating[%s,t=%d]" % (tname, t)
            if cx.mode == "conc":
                cx.check(label, or_(not bool(accepted), le(P, bound)))
                continue
            prop = le(P, bound).z3()
            status, asg, detail = "unknown", None, None
            import time as _t

            t0 = _t.time()
            for it in range(150):
                r = cx._check(z3.Not(prop), timeout=60000)
                if r == z3.unsat:
                    status = "unsat"
                    break
                if r != z3.sat:
                    break
                m = cx.solver.model()
                bad = []
                for k, (rz, iz, lz) in enumerate(cone_terms):
                    a, b, l = rat(m, rz), rat(m, iz), rat(m, lz)
                    if l < 0 or a * a + b * b > l * l:
                        bad.append((k, a, b))
                if not bad:
                    status, asg = "sat", cx.model_assignment(m)
                    detail = "power %.6f kW vs rating %.6f kW" % (float(rat(m, core.toz3(P))), float(rat(m, core.toz3(cap))))
                    break
                # repair: every cone is homogeneous in the schedule, so scaling the currents by lambda = min_i L_i/|z_i| puts the
                # model inside all cones; if the scaled schedule still exceeds the rating it is a genuine counterexample
                lam = min([fractions.Fraction(1)] + [fractions.Fraction(float(rat(m, lz))) / fractions.Fraction(math.hypot(float(a), float(b)) * (1 + 1e-9)) for k2, a, b in bad
                                                     for (rz, iz, lz) in [cone_terms[k2]] if rat(m, lz) >= 0])
                if lam > 0:
                    full = cx.model_assignment(m)
                    scaled = dict(full)
                    for key, v in full.items():
                        if key.startswith("x"):
                            scaled[key] = str(fractions.Fraction(v) * lam)
                    subs = [(cx.inputs[key], R(float(fractions.Fraction(v)))) for key, v in scaled.items()]
                    ok_cones = True
                    for rz, iz, lz in cone_terms:
                        a2, b2, l2 = (rat(m, z3.substitute(e_, *subs)) for e_ in (rz, iz, lz))
                        if l2 < 0 or a2 * a2 + b2 * b2 > l2 * l2:
                            ok_cones = False
                            break
                    if ok_cones and z3.is_false(z3.simplify(z3.substitute(prop, *subs))):
                        status, asg = "sat", {k_: (v_ if not isinstance(v_, str) else "%d/%d" % (fractions.Fraction(float(fractions.Fraction(v_))).numerator, fractions.Fraction(float(fractions.Fraction(v_))).denominator)) for k_, v_ in scaled.items()}
                        detail = "scaled model: power %.6f kW vs rating %.6f kW" % (float(rat(m, z3.substitute(core.toz3(P), *subs))), float(rat(m, core.toz3(cap))))
                        break
                refined += 1
                for k, a, b in bad:
                    nrm = math.hypot(float(a), float(b))
                    rz, iz, lz = cone_terms[k]
                    cx.solver.add(R(float(a) / nrm * SHRINK) * rz + R(float(b) / nrm * SHRINK) * iz <= lz)
            cx.obligations.append(Obligation(label, status, asg, detail, _t.time() - t0))
    cx.tag("refined_or_direct")
    cx.observe("refinements", 0)
    # ---- pods / sub-panels: the documented phasor sum and rating are among the enforced constraints
    for pname, rating, grp in doc["panels"]:
        for t in range(T):
            re_o, im_o = 0, 0
            for key, members in grp.items():
                sign, ang = (1, key) if not isinstance(key, tuple) else ((1 if key[0] == "+" else -1), key[1])
                for sid in members:
                    x = X[ids.index(sid)][t]
                    re_o = re_o + sign * math.cos(math.radians(ang)) * x
                    im_o = im_o + sign * math.sin(math.radians(ang)) * x
            lim = rating + max(1e-5, 1e-7 * rating)
            label = "panel_rating_enforced[%s]" % pname
            if cx.mode == "conc":
                mag = math.hypot(re_o, im_o)
                cx.check(label, or_(not bool(accepted), le(mag, lim + 1e-6)))
                continue
            found = False
            for rz, iz, lz in cone_terms:
                neq = z3.Or(core.toz3(re_o) - rz > R(1e-9), rz - core.toz3(re_o) > R(1e-9), core.toz3(im_o) - iz > R(1e-9), iz - core.toz3(im_o) > R(1e-9), lz > R(lim + 1e-9))
                if cx._check(neq, timeout=20000) == z3.unsat:
                    found = True
                    break
            if found:
                cx.obligations.append(Obligation(label, "unsat", None, "identical (to 1e-9 A) to an enforced constraint"))
            else:
                # no enforced constraint equals the documented one: look for a schedule that is accepted but overloads the panel
                # in some direction (linear search over 24 directions; a hit is replayed on the real is_feasible)
                hit = None
                for d in range(0, 360, 15):
                    q = R(math.cos(math.radians(d))) * core.toz3(re_o) + R(math.sin(math.radians(d))) * core.toz3(im_o) > R(lim * 1.001)
                    if cx._check(q, timeout=20000) == z3.sat:
                        m = cx.solver.model()
                        if all(rat(m, lz) >= 0 and rat(m, rz) ** 2 + rat(m, iz) ** 2 <= rat(m, lz) ** 2 for rz, iz, lz in cone_terms):
                            hit = cx.model_assignment(m)
                            break
                cx.obligations.append(Obligation(label, "sat" if hit else "unknown", hit, "documented panel constraint is not enforced by the network"))
    cx.observe("accepted_is_bool", True)


def jobs(tier):
    q = tier == "quick"
    js = []
    for site in ("caltech", "jpl", "office001"):
        for basic in (True, False):
            for T in ((1,) if q else (1, 2)):
                if T == 2 and site != "office001" and basic:
                    continue
                js.append(Job("site[%s,basic=%d,T=%d]" % (site, basic, T), h_site, dict(site=site, basic=basic, T=T), functions=FUNCS, timeout=3000,
                              bounds=dict(site=site, evse_type="BASIC" if basic else "AeroVironment/ClipperCreek", periods=T, capacities="symbolic in [1, 2000] kW",
                                          schedule="0 <= x <= station max pilot"), cost=10 * T))
    for site in (("jpl",) if q else ("caltech", "jpl", "office001")):
        js.append(Job("site[%s,basic=0,T=1,reloaded_from_json]" % site, h_site, dict(site=site, basic=False, T=1, reload=True), functions=FUNCS + ["acnportal.acnsim.base.BaseSimObj.to_json/from_json", "acnportal.acnsim.network.charging_network.ChargingNetwork._to_dict/_from_dict"], timeout=3000,
                      bounds=dict(site=site, periods=1, capacities="symbolic in [1, 2000] kW", history="network written with to_json() and read back before the queries"), cost=20))
    for site, T in ((("office001", 257),) if q else (("office001", 257), ("caltech", 300), ("jpl", 513))):
        js.append(Job("site[%s,basic=0,T=%d,only_last_period_loaded]" % (site, T), h_site, dict(site=site, basic=False, T=T, only_last=True), functions=FUNCS, timeout=3000,
                      bounds=dict(site=site, periods=T, capacities="symbolic in [1, 2000] kW", schedule="zero in periods 0..T-2, 0 <= x <= station max pilot in the last period"), cost=30))
    if not q:
        for site in ("caltech", "jpl", "office001"):
            js.append(Job("site[%s,default_caps,T=1]" % site, h_site, dict(site=site, basic=False, T=1, concrete_caps=True), functions=FUNCS, timeout=3000,
                          bounds=dict(site=site, capacities="factory defaults", periods=1), cost=5))
    return js
