"""C17 - tariff lookup is total, unambiguous and aligned with simulation time.

The real TimeOfUseTariff (constructor: JSON parsing, weekday masks, sorted breakpoints, wrap-around split; _get_tariff_schedule,
get_tariff, get_tariffs, get_demand_charge) runs on each of the five bundled files with a SYMBOLIC calendar instant
(year type = leap flag x weekday of 1 January, day of year, second of day: every instant of all 14 calendar types is one
solver-decided class per path).  The real Interface.get_prices / get_demand_charge and analysis.energy_cost / demand_charge
run on a real Simulator whose start is such an instant and whose charging rates are symbolic.

Oracle (independent of the code): the JSON file parsed again by the harness; a schedule applies iff the date lies in its
season (inclusive, wrapping the new year when end < start) and the weekday is in its class; exactly one must apply; the
price is that of the latest breakpoint <= time of day.
"""
import json
import math
import os

from symx import env, core
from symx.core import le, lt, ge, gt, eq, ne, and_, or_, implies, not_, iff, ite, is_sym
from symx.run import Job
from props.simlib import acn

FILES = ["pge_a10_tou_aug_2019", "sce_tou_ev_4_march_2019", "sce_tou_ev_4_march_2019_tou_periods_shifted", "sce_tou_ev_8_june_2019", "sce_tou_ev_8_oct_2018"]
FUNCS = [
    "acnportal.signals.tariffs.tou_tariff.TariffSchedule.__init__",
    "acnportal.signals.tariffs.tou_tariff.TimeOfUseTariff.__init__/_get_tariff_schedule/get_tariff/get_tariffs/get_demand_charge",
    "acnportal.acnsim.interface.Interface.get_prices/get_demand_charge",
    "acnportal.acnsim.analysis.energy_cost/demand_charge/aggregate_power",
]
ASSUMPTIONS = [
    "datetime modelled as (leap flag, weekday of 1 Jan, day of year, second of day) with Gregorian month table; naive datetimes, whole seconds; adding a timedelta crosses at most one new year (next year's leap flag is an input, never two leap years in a row)",
    "Decimal modelled as an exact rational: the bundled breakpoints are multiples of 0.5 h; Decimal's 28-digit rounding of minute/60 + second/3600 cannot cross such a breakpoint",
    "every path witness is replayed with a REAL datetime of a matching year and the real Decimal / timedelta",
    "prices and demand charges are the floats of the JSON file, compared exactly",
    "vector lookups (get_tariffs / get_prices / energy_cost) restrict the start to windows around season boundaries, the new year, weekends and the interior of a season (listed per job) to keep the number of paths bounded; single lookups cover the whole calendar",
]
EXPECT_GLOBAL_TAGS = ("lookup:ok", "history:ok", "vector:ok", "vector:wrapped_year", "iface:ok", "cost:ok")


def tariff_dir():
    import acnportal.signals.tariffs.tou_tariff as tt

    return os.path.join(os.path.dirname(tt.__file__), "tariff_schedules")


def load_doc(name):
    return json.load(open(os.path.join(tariff_dir(), name + ".json")))


def _md(s):
    a, b = s.split("-")
    return int(a) * 100 + int(b)


def oracle(doc, dt):
    """-> (count of applicable schedules, price, demand charge) as symbolic / concrete values"""
    month, day, wd, sod = env.dt_fields(dt)
    md = month * 100 + day
    cnt, price, dc = 0, -1.0, -1.0
    for s in doc["schedule"]:
        st, en = _md(s["effective_start"]), _md(s["effective_end"])
        if st <= en:
            indate = and_(ge(md, st), le(md, en))
        else:
            indate = or_(ge(md, st), le(md, en))
        mask = {"WEEKDAYS": le(wd, 4), "WEEKENDS": ge(wd, 5), "ALL": core.tt()}[s["dow_mask"]]
        v = and_(indate, mask)
        cnt = cnt + ite(v, 1, 0)
        pr = -1.0
        for tm, p in sorted(zip([float(x) for x in s["times"]], [float(x) for x in s["tariffs"]])):
            pr = ite(ge(sod, int(round(tm * 3600))), p, pr)
        price = ite(v, pr, price)
        dc = ite(v, float(s["demand_charge"]), dc)
    return cnt, price, dc


def h_lookup(cx, fname, jan1s):
    env.install_calendar(cx)
    from acnportal.signals.tariffs import TimeOfUseTariff

    doc = load_doc(fname)
    for s in doc["schedule"]:
        for tm in s["times"]:
            assert abs(float(tm) * 3600 - round(float(tm) * 3600)) < 1e-9  # breakpoints are whole seconds
    t = TimeOfUseTariff(fname)
    dt = env.make_datetime(cx, "dt", jan1_in=jan1s)
    cnt, price, dc = oracle(doc, dt)
    cx.check("oracle:exactly_one_schedule_applies", eq(cnt, 1), note="the file itself assigns %s schedules to this instant" % "0 or >1")
    try:
        got = t.get_tariff(dt)
    except ValueError as e:
        cx.tag("lookup:raised")
        cx.check("lookup_total", False, note="get_tariff raised ValueError: %s" % str(e)[:80])
        return
    cx.tag("lookup:ok")
    cx.observe("price", got)
    cx.check("price=latest_breakpoint_of_the_applicable_schedule", eq(got, price))
    try:
        gdc = t.get_demand_charge(dt)
    except ValueError as e:
        cx.check("demand_charge_total", False, note="get_demand_charge raised ValueError")
        return
    cx.observe("dc", gdc)
    cx.check("demand_charge_of_the_applicable_schedule", eq(gdc, dc))


def h_history(cx, fname, window):
    """the lookup is a function of the instant alone: a second lookup on the SAME tariff object, at an independent instant of an
    independent year type, still equals the oracle (no state carried over between calls)"""
    env.install_calendar(cx)
    from acnportal.signals.tariffs import TimeOfUseTariff

    doc = load_doc(fname)
    t = TimeOfUseTariff(fname)
    dr, sr = WINDOWS[window]
    first = env.make_datetime(cx, "first", doy_range=dr, sod_range=(12 * 3600 + 60, 13 * 3600), jan1_in=JAN1[window][:1])
    second = env.make_datetime(cx, "second", doy_range=dr, sod_range=sr)
    try:
        p1 = t.get_tariff(first)
        d1 = t.get_demand_charge(first)
        p2 = t.get_tariff(second)
        d2 = t.get_demand_charge(second)
    except ValueError as e:
        cx.check("lookup_total", False, note="raised ValueError: %s" % str(e)[:80])
        return
    cx.tag("history:ok")
    c1, o1, od1 = oracle(doc, first)
    c2, o2, od2 = oracle(doc, second)
    cx.check("first_lookup", and_(eq(p1, o1), eq(d1, od1)))
    cx.check("second_lookup_independent_of_first", and_(eq(p2, o2), eq(d2, od2)))
    cx.observe("p", [p1, d1, p2, d2])


WINDOWS = {
    # name: (doy range (non-leap numbering; leap years shift by <=1 and are covered too), sod range)
    "summer_interior": ((200, 202), (0, 86399)),
    "new_year": ((363, 365), (0, 86399)),
    "season_end_sep30": ((272, 273), (0, 86399)),
    "season_start_jun1": ((150, 152), (0, 86399)),
    "pge_boundary_oct31": ((303, 304), (0, 86399)),
    "leap_day": ((58, 60), (0, 86399)),
}
# vector / interface / cost harnesses fix the weekday of 1 January per job (the single-lookup harness covers all seven):
# with 1 January on a Wednesday/Thursday/Monday the windows above contain Friday-Saturday-Sunday-Monday transitions
JAN1 = {"summer_interior": [2], "new_year": [3, 6], "season_end_sep30": [0, 4], "season_start_jun1": [1], "pge_boundary_oct31": [5], "leap_day": [6]}


def h_vector(cx, fname, window, n, max_period):
    """get_tariffs(start, n, period) == [lookup(start + k*period)] with symbolic start (inside a window) and symbolic period"""
    env.install_calendar(cx)
    from acnportal.signals.tariffs import TimeOfUseTariff

    doc = load_doc(fname)
    t = TimeOfUseTariff(fname)
    dr, sr = WINDOWS[window]
    start = env.make_datetime(cx, "start", doy_range=dr, sod_range=sr, jan1_in=JAN1[window])
    period = cx.int("period", 1, max_period)
    try:
        got = t.get_tariffs(start, n, period)
    except ValueError as e:
        cx.check("vector_total", False, note="get_tariffs raised ValueError: %s" % str(e)[:80])
        return
    cx.check("vector_length", len(got) == n)
    cx.tag("vector:ok")
    for k in range(min(n, len(got))):
        at = env.dt_shift(start, k * period * 60)
        cnt, price, dc = oracle(doc, at)
        cx.check("vector[%d]=lookup(start+%d*period)" % (k, k), and_(eq(cnt, 1), eq(got[k], price)))
        if k == n - 1 and env.dt_later_year(start, at):
            cx.tag("vector:wrapped_year")
    cx.observe("prices", list(got))


def _possible(cx, prop):
    import z3

    return cx._check(prop.z3()) == z3.sat


class _Alg:
    max_recompute = 1

    def register_interface(self, i):
        self.interface = i


def _sim(cx, start, period, tariff, n_st=2, voltages=(208, 120)):
    A = acn()
    net = A.ChargingNetwork()
    for j in range(n_st):
        net.register_evse(A.EVSE("S%d" % j, max_rate=80), voltages[j], 0)
    return A.Simulator(net, _Alg(), A.EventQueue(), start, period=period, verbose=False, signals={"tariff": tariff})


def h_interface(cx, fname, window, n, period, now, explicit):
    """Interface.get_prices(n[, start]) / get_demand_charge([start]) are the lookups at sim.start + (t + k) * period"""
    env.install(cx)
    env.install_calendar(cx)
    from acnportal.signals.tariffs import TimeOfUseTariff

    A = acn()
    doc = load_doc(fname)
    tariff = TimeOfUseTariff(fname)
    dr, sr = WINDOWS[window]
    start = env.make_datetime(cx, "start", doy_range=dr, sod_range=sr, jan1_in=JAN1[window])
    sim = _sim(cx, start, period, tariff)
    iface = A.Interface(sim)
    sim._iteration = now
    try:
        prices = iface.get_prices(n) if explicit is None else iface.get_prices(n, explicit)
        gdc = iface.get_demand_charge() if explicit is None else iface.get_demand_charge(explicit)
    except ValueError as e:
        cx.check("interface_total", False, note="raised ValueError: %s" % str(e)[:80])
        return
    cx.tag("iface:ok")
    t0 = now if explicit is None else explicit
    cx.check("prices_length", len(prices) == n)
    for k in range(min(n, len(prices))):
        cnt, price, dc = oracle(doc, env.dt_shift(start, (t0 + k) * period * 60))
        cx.check("interface_price[%d]=lookup(start+(t+%d)*period)" % (k, k), and_(eq(cnt, 1), eq(prices[k], price)))
    cnt, price, dc = oracle(doc, env.dt_shift(start, t0 * period * 60))
    cx.check("interface_demand_charge=lookup(start+t*period)", eq(gdc, dc))
    cx.observe("prices", list(prices))
    cx.observe("dc", gdc)
    # no tariff signal -> ValueError
    sim2 = _sim(cx, start, period, tariff)
    sim2.signals = {}
    try:
        A.Interface(sim2).get_prices(1)
        cx.check("no_tariff_raises", False)
    except ValueError:
        cx.check("no_tariff_raises", True)


def h_cost(cx, fname, window, T, period):
    """energy_cost = sum_t price(start + t*period) * P_t * period/60 ; demand_charge = rate(start) * max_t P_t,  P_t = sum_j V_j r_jt / 1000"""
    env.install(cx)
    env.install_calendar(cx)
    import numpy as np
    from acnportal.signals.tariffs import TimeOfUseTariff
    import acnportal.acnsim.analysis as AN

    doc = load_doc(fname)
    tariff = TimeOfUseTariff(fname)
    dr, sr = WINDOWS[window]
    start = env.make_datetime(cx, "start", doy_range=dr, sod_range=sr, jan1_in=JAN1[window])
    V = (208, 120)
    sim = _sim(cx, start, period, tariff, voltages=V)
    R = [[cx.real("r%d_%d" % (j, t), lo=0, hi=80) for t in range(T)] for j in range(2)]
    # state of a finished run: one recorded column per simulated period
    M = np.empty((2, T), dtype=object if cx.mode == "sym" else float)
    for j in range(2):
        for t in range(T):
            M[j, t] = R[j][t]
    sim.charging_rates = M
    sim._iteration = T
    by_signal = cx.bool("tariff_from_signals")
    try:
        ec = AN.energy_cost(sim) if by_signal else AN.energy_cost(sim, tariff)
        dcharge = AN.demand_charge(sim) if by_signal else AN.demand_charge(sim, tariff)
    except ValueError as e:
        cx.check("cost_total", False, note="raised ValueError: %s" % str(e)[:80])
        return
    cx.tag("cost:ok")
    P = [sum(V[j] * R[j][t] for j in range(2)) / 1000 for t in range(T)]
    exp_cost = 0
    for t in range(T):
        cnt, price, dc = oracle(doc, env.dt_shift(start, t * period * 60))
        exp_cost = exp_cost + price * P[t] * (period / 60)
    cnt, price, dc = oracle(doc, start)
    pmax = core.sym_max(P)
    cx.check("energy_cost=sum(price*power*dt)", and_(le(ec - exp_cost, 1e-9 * 200), le(exp_cost - ec, 1e-9 * 200)))
    cx.check("demand_charge=rate(start)*peak_power", and_(le(dcharge - dc * pmax, 1e-9 * 400), le(dc * pmax - dcharge, 1e-9 * 400)))
    cx.observe("energy_cost", ec)
    cx.observe("demand_charge", dcharge)


def jobs(tier):
    q = tier == "quick"
    js = []
    for f in FILES:
        # one shard per weekday of 1 January (the 14 calendar types = 7 shards x symbolic leap flag)
        shards = [[0, 1, 2, 3], [4, 5, 6]] if q else [[j] for j in range(7)]
        for sh in shards:
            js.append(Job("lookup[%s,jan1=%s]" % (f, "".join(map(str, sh))), h_lookup, dict(fname=f, jan1s=sh), functions=FUNCS[:2], max_paths=40000, timeout=3000,
                          bounds=dict(file=f, calendar="leap flag symbolic, weekday of 1 January in %s, every day of the year, every second of the day" % sh), cost=50))
    vec = [("sce_tou_ev_8_oct_2018", "summer_interior", 3, 720), ("sce_tou_ev_8_oct_2018", "new_year", 2, 1440), ("sce_tou_ev_4_march_2019", "season_end_sep30", 2, 60),
           ("pge_a10_tou_aug_2019", "summer_interior", 2, 240)]
    if not q:
        vec += [(f, w, 3, 1440) for f in FILES for w in ("new_year", "summer_interior")] + [(f, "season_end_sep30", 2, 720) for f in FILES[1:]] + \
               [(f, "season_start_jun1", 2, 720) for f in FILES[1:]] + [("pge_a10_tou_aug_2019", "pge_boundary_oct31", 2, 720), ("sce_tou_ev_8_june_2019", "leap_day", 3, 1440)]
    for f, w, n, mp in vec:
        js.append(Job("vector[%s,%s,n=%d,period<=%d]" % (f, w, n, mp), h_vector, dict(fname=f, window=w, n=n, max_period=mp), functions=FUNCS[:2], max_paths=60000, timeout=3000,
                      bounds=dict(file=f, start_window=w, window_doy=WINDOWS[w][0], jan1_weekday=JAN1[w], length=n, period_minutes="symbolic 1..%d" % mp), cost=200))
    for f, w in ([("sce_tou_ev_4_march_2019", "summer_interior"), ("pge_a10_tou_aug_2019", "new_year")] if q else
                 [(f, w) for f in FILES for w in ("summer_interior", "new_year", "season_end_sep30", "leap_day")]):
        js.append(Job("history[%s,%s]" % (f, w), h_history, dict(fname=f, window=w), functions=FUNCS[:2], max_paths=60000, timeout=3000,
                      bounds=dict(file=f, window=w, window_doy=WINDOWS[w][0], first_instant="year type fixed, 12:01-13:00", second_instant="any year type, any second of the days in the window"), cost=150))
    ifs = [("sce_tou_ev_8_oct_2018", "summer_interior", 2, 60), ("sce_tou_ev_4_march_2019", "new_year", 2, 5)]
    if not q:
        ifs += [(f, w, 3, p) for f in FILES for w, p in (("new_year", 60), ("summer_interior", 5))] + [("sce_tou_ev_4_march_2019", "season_end_sep30", 2, 15)]
    for f, w, n, p in ifs:
        for now, explicit in ([(0, None), (3, None), (1, 2), (3, 0)] if q else [(a, b) for a in (0, 1, 3) for b in (None, 0, 2)]):
            js.append(Job("interface[%s,%s,n=%d,period=%d,now=%d,start=%s]" % (f, w, n, p, now, explicit), h_interface,
                          dict(fname=f, window=w, n=n, period=p, now=now, explicit=explicit), functions=FUNCS, max_paths=60000, timeout=3000,
                          bounds=dict(file=f, start_window=w, length=n, period=p, current_time=now, explicit_start=explicit), cost=100))
    cs = [("sce_tou_ev_8_oct_2018", "summer_interior", 2, 60), ("pge_a10_tou_aug_2019", "summer_interior", 2, 5)]
    if not q:
        cs += [(f, "summer_interior", 3, 60) for f in FILES] + [("sce_tou_ev_4_march_2019", "new_year", 2, 60), ("sce_tou_ev_8_june_2019", "season_end_sep30", 2, 15)]
    for f, w, T, p in cs:
        js.append(Job("cost[%s,%s,T=%d,period=%d]" % (f, w, T, p), h_cost, dict(fname=f, window=w, T=T, period=p), functions=FUNCS, max_paths=60000, timeout=3000,
                      bounds=dict(file=f, start_window=w, periods=T, period=p, stations=2, voltages=[208, 120]), cost=200))
    return js
