def jobs_rates_le_pilots(tier):
    return []
