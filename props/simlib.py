"""Shared scenario builder for whole-simulation harnesses (C01, C02, C03-sim, C04, C05, C09, C10).

Everything here drives the REAL Simulator / ChargingNetwork / EVSE / EV / Battery / EventQueue objects through their
public API; symbolic values are event times (SymInt), pilots, battery parameters, requested energies, limits.
"""
from datetime import datetime

from symx import env
from symx.core import le, lt, ge, gt, eq, ne, and_, or_, implies, not_, iff, ite, SymReal, is_sym, sym_max, sym_min
from symx.run import Job

SIM_FUNCS = [
    "acnportal.acnsim.simulator.Simulator.__init__/run/_process_event/_update_schedules/_store_actual_charging_rates/_increase_width",
    "acnportal.acnsim.events.event_queue.EventQueue.*",
    "acnportal.acnsim.events.event.Event.__lt__ (+Plugin/Unplug/Recompute)",
    "acnportal.acnsim.network.charging_network.ChargingNetwork.register_evse/add_constraint/plugin/unplug/update_pilots/is_feasible/constraint_current/current_charging_rates/active_evs",
    "acnportal.acnsim.models.evse.*.set_pilot/_valid_rate/plugin/unplug",
    "acnportal.acnsim.models.ev.EV.charge",
    "acnportal.acnsim.models.battery.Battery.charge",
    "acnportal.acnsim.interface.Interface.*",
    "acnportal.algorithms.base_algorithm.BaseAlgorithm.run",
]

SIM_ASSUMPTIONS = [
    "Python floats modelled as exact reals (IEEE rounding outside the claim)",
    "np.zeros/np.array in repository modules produce object arrays (same mathematics, no rounding)",
    "builtins min/max/abs/sum in repository modules evaluated as if-then-else terms",
    "voltages and period are concrete at simulation level (208/240/120 V; 1, 5 or 60 min) so that obligations stay linear; pilots, energies, capacities, limits, event times are symbolic",
    "discrete structure (which period an event falls in, event interleavings) is covered by forking inside the stated bounds",
]

START = datetime(2020, 3, 2, 8, 0, 0)


def acn():
    import acnportal.acnsim as A

    return A


class Snap:
    """per-period snapshots taken through the public override point ChargingNetwork.post_charging_update"""

    def __init__(self):
        self.rows = []


def make_network(cx, stations, constraint=None, snap=None, sim_ref=None, network_cls=None, tolerances=None):
    """stations: list of (id, kind, voltage, phase); kind in EVSE, DEADBAND, CC, AV5"""
    A = acn()
    base = network_cls or A.ChargingNetwork

    class RecNet(base):
        def post_charging_update(self_inner):
            super().post_charging_update()
            if snap is not None and sim_ref:
                s = sim_ref[0]
                snap.rows.append(dict(t=s.iteration, nhist=len(s.event_history),
                                      conn={sid: (self_inner.get_ev(sid).session_id if self_inner.get_ev(sid) is not None else None) for sid in self_inner.station_ids}))

    # without a snapshot recorder the plain (importable, hence JSON-loadable) class is used
    net = (RecNet if snap is not None else base)(**(tolerances or {}))
    for sid, kind, V, ph in stations:
        net.register_evse(make_evse(sid, kind), V, ph)
    if constraint is not None:
        coeffs, limit = constraint
        cur = A.Current({stations[i][0]: c for i, c in enumerate(coeffs) if c != 0})
        net.add_constraint(cur, limit, name="lim")
    return net


def make_evse(sid, kind):
    A = acn()
    if kind == "EVSE":
        return A.EVSE(sid, max_rate=32)
    if kind == "DEADBAND":
        return A.DeadbandEVSE(sid, deadband_end=6, max_rate=32)
    if kind == "CC":
        return A.FiniteRatesEVSE(sid, [0, 8, 16, 24, 32])
    if kind == "AV5":
        return A.FiniteRatesEVSE(sid, [0, 6, 7, 8, 9])
    raise ValueError(kind)


def allowed_pilot(cx, name, kind, positive=False):
    """a symbolic pilot the EVSE of this kind accepts"""
    p = cx.real(name, lo=0, hi=32)
    if kind == "DEADBAND":
        cx.assume(or_(eq(p, 0), ge(p, 6)))
    elif kind == "CC":
        cx.assume(or_(*[eq(p, v) for v in (0, 8, 16, 24, 32)]))
    elif kind == "AV5":
        cx.assume(or_(*[eq(p, v) for v in (0, 6, 7, 8, 9)]))
    if positive:
        cx.assume(gt(p, 0))
    return p


def make_battery(cx, tag, kind):
    """symbolic battery; returns (battery, capacity, init_charge, max_power)"""
    A = acn()
    if kind == "huge":
        return A.Battery(100000, 0, 100000), 100000, 0, 100000
    cap = cx.real("cap_" + tag, lo=0, lo_open=True, hi=200)
    init = cx.real("init_" + tag, lo=0)
    cx.assume(le(init, cap))
    maxp = cx.real("maxp_" + tag, lo=0, lo_open=True, hi=50)
    if kind == "ideal":
        return A.Battery(cap, init, maxp), cap, init, maxp
    if kind == "stepwise":
        return A.Linear2StageBattery(cap, init, maxp, transition_soc=0.8, charge_calculation="stepwise"), cap, init, maxp
    raise ValueError(kind)


class Scripted:
    """factory for a scripted BaseAlgorithm: pilots come from a lazily declared symbolic table keyed by (station, period)"""

    def __init__(self, cx, stations, max_recompute=1, length=1, subset=None, positive=False, crash_at=None, order=None,
                 record=None, table=None, dry_run=False):
        from acnportal.algorithms import BaseAlgorithm

        outer = self
        self.cx, self.stations = cx, stations
        self.kinds = {s[0]: s[1] for s in stations}
        self.table = {} if table is None else table
        self.calls = [] if record is None else record
        self.positive = positive
        self.crash_at = crash_at

        class Algo(BaseAlgorithm):
            def __init__(self):
                super().__init__()
                self.max_recompute = max_recompute

            def schedule(self, active_sessions):
                t = self.interface.current_time
                outer.calls.append(dict(t=t, sessions=[s.session_id for s in active_sessions]))
                if dry_run:
                    # a look-ahead on the EV copies handed out by the (deprecated, public) active_evs view: must not touch the real EVs
                    import warnings as _w

                    with _w.catch_warnings():
                        _w.simplefilter("ignore")
                        for ev_copy in self.interface.active_evs:
                            ev_copy.charge(3.0, 208, 5)
                if outer.crash_at is not None and bool(outer.crash_at == t):
                    outer.crash_at = None
                    raise Boom()
                ids = [s[0] for s in stations]
                if subset is not None:
                    ids = [i for i in ids if i in subset]
                if order is not None:
                    ids = [ids[k] for k in order if k < len(ids)]
                L = length(t) if callable(length) else length
                if L == 0:
                    return {}
                return {sid: [outer.pilot(sid, t + k) for k in range(L)] for sid in ids}

        self.algo = Algo()

    def pilot(self, sid, t):
        key = (sid, t)
        if key not in self.table:
            self.table[key] = allowed_pilot(self.cx, "p_%s_%d" % (sid, t), self.kinds[sid], self.positive)
        return self.table[key]


class Boom(Exception):
    pass


def make_sim(cx, net, algo, evs, recompute_at=(), period=5, store_history=False, signals=None):
    A = acn()
    events = [A.PluginEvent(ev.arrival, ev) for ev in evs] + [A.RecomputeEvent(t) for t in recompute_at]
    q = A.EventQueue(events)
    return A.Simulator(net, algo, q, START, period=period, verbose=False, store_schedule_history=store_history, signals=signals)


def sym_times(cx, n_sessions, H, station_of):
    """symbolic arrival/departure per session: 0 <= a < d <= H, sessions on the same station do not overlap"""
    times = []
    for i in range(n_sessions):
        a = cx.int("a%d" % i, 0, H - 1)
        d = cx.int("d%d" % i, 1, H)
        cx.assume(lt(a, d))
        times.append((a, d))
    for i in range(n_sessions):
        for j in range(i + 1, n_sessions):
            if station_of[i] == station_of[j]:
                cx.assume(or_(le(times[i][1], times[j][0]), le(times[j][1], times[i][0])))
    return times


def val(x):
    return x


def jobs_rates_le_pilots(tier):
    from props import C02

    return C02.sim_jobs(tier, only_bounds=True)
