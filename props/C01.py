"""C01 - every session plugged/unplugged exactly once, in time/precedence order; run() terminates one period after the last event.

The real Simulator.run() is executed with symbolic arrival/departure/recompute timestamps (SymInt); the event queue,
heap order, plug/unplug and the period loop are the repository's code. Per-period snapshots come from the public
override point ChargingNetwork.post_charging_update.
"""
from symx import env
from symx.core import le, lt, ge, gt, eq, ne, and_, or_, implies, not_, iff, sym_max
from symx.run import Job
from props import simlib
from props.simlib import make_network, make_battery, make_sim, Scripted, Snap, sym_times, acn

ASSUMPTIONS = simlib.SIM_ASSUMPTIONS + [
    "sessions: 0 <= arrival < departure <= H; sessions sharing a station do not overlap (back-to-back allowed)",
    "huge ideal battery, so that 'rate > 0' is equivalent to 'connected and pilot > 0'; the request is huge (never met) or, in req=sym jobs, symbolic in (0,2] kWh (met after a few periods)",
]


def h_events(cx, stations, station_of, H, sched, mr, constraint, n_recompute, req=None, json_resume=False, reuse_queue=False):
    env.install(cx)
    if json_resume:
        env.install_json(cx)
    A = acn()
    snap = None if json_resume else Snap()
    sim_ref = [None]
    cons = None
    if constraint:
        cons = ([1] * len(stations), 1000)
    net = make_network(cx, stations, cons, snap, sim_ref)
    times = sym_times(cx, len(station_of), H, station_of)
    evs = []
    for i, (a, d) in enumerate(times):
        b, _, _, _ = make_battery(cx, "s%d" % i, "huge")
        # the user's *estimate* of the departure is independent of the real departure
        est = cx.int("est%d" % i, 1, H + 1)
        cx.assume(gt(est, a))
        # req == "sym": the request is a symbolic energy a few periods of charging can meet, so sessions may be fully
        # charged (dropped from the scheduler's view) before they leave; the battery stays huge (rate == pilot)
        e_req = 50000 if req is None else cx.real("req%d" % i, lo=0, lo_open=True, hi=2)
        evs.append(A.EV(a, d, e_req, stations[station_of[i]][0], "sess%d" % i, b, estimated_departure=est))
    rts = [cx.int("r%d" % k, 0, H) for k in range(n_recompute)]
    calls = []
    table = {}
    if sched == "scripted":
        # json_resume: the scheduler raises in a symbolic period; the simulator is then written to JSON, read back, given its
        # scheduler again and run to the end - the obligations below are about the completed simulation
        algo = Scripted(cx, stations, max_recompute=mr, positive=True, record=calls, table=table, crash_at=(cx.int("crash_at", 0, H) if json_resume else None)).algo
    elif sched == "empty":
        algo = Scripted(cx, stations, max_recompute=mr, length=0, record=calls).algo
    elif sched == "uncontrolled":
        from acnportal.algorithms import UncontrolledCharging

        algo = UncontrolledCharging()
    elif sched == "fcfs":
        from acnportal.algorithms import SortedSchedulingAlgo, first_come_first_served

        algo = SortedSchedulingAlgo(first_come_first_served)
    if reuse_queue:
        # the EventQueue object has already served an earlier, unrelated simulation (three periods on another network) and was
        # drained by it; it is refilled through add_events() and handed to the simulator that is judged
        from acnportal.algorithms import UncontrolledCharging

        net0 = A.ChargingNetwork()
        net0.register_evse(A.EVSE("W", max_rate=16), 208, 0)
        q = A.EventQueue([A.PluginEvent(0, A.EV(0, 3, 1.0, "W", "warm", A.Battery(50, 0, 7)))])
        A.Simulator(net0, UncontrolledCharging(), q, simlib.START, period=5, verbose=False).run()
        cx.check("warm-up queue drained", q.empty())
        q.add_events([A.PluginEvent(ev.arrival, ev) for ev in evs] + [A.RecomputeEvent(t) for t in rts])
        sim = A.Simulator(net, algo, q, simlib.START, period=5, verbose=False)
        cx.tag("queue_object_reused")
    else:
        sim = make_sim(cx, net, algo, evs, recompute_at=rts)
    sim_ref[0] = sim
    if json_resume:
        import warnings

        try:
            sim.run()
        except simlib.Boom:
            cx.tag("interrupted_and_reloaded")
        with warnings.catch_warnings():
            warnings.simplefilter("ignore")
            sim = A.Simulator.from_json(sim.to_json())
        sim.update_scheduler(Scripted(cx, stations, max_recompute=mr, positive=True, record=calls, table=table).algo)
        sim.run()
        net = sim.network
        evs = [sim.ev_history["sess%d" % i] for i in range(len(evs)) if "sess%d" % i in sim.ev_history]
        cx.check("every_session_seen", len(evs) == len(times))
        if len(evs) != len(times):
            return
    else:
        sim.run()
    cx.tag("terminated")
    hist = sim.event_history
    # --- termination state
    cx.check("queue_empty", sim.event_queue.empty())
    cx.check("all_vacant", all(net.get_ev(s[0]) is None for s in stations))
    last = sym_max([d for _, d in times] + list(rts))
    cx.check("ends_one_after_last_event", eq(sim.iteration, last + 1))
    if json_resume:
        # no per-period recorder on a reloaded (plain) network: connection is read off the recorded rates (huge battery, every
        # pilot positive, scheduler invoked every period: rate > 0 exactly while connected)
        for i in range(len(evs)):
            plugs = [e for e in hist if e.event_type == "Plugin" and e.ev is evs[i]]
            unplugs = [e for e in hist if e.event_type == "Unplug" and e.ev is evs[i]]
            cx.check("one_plugin[%d]" % i, len(plugs) == 1)
            cx.check("one_unplug[%d]" % i, len(unplugs) == 1)
        for k in range(len(hist) - 1):
            cx.check("time_order", le(hist[k].timestamp, hist[k + 1].timestamp))
            cx.check("precedence_order", implies(eq(hist[k].timestamp, hist[k + 1].timestamp), le(hist[k].precedence, hist[k + 1].precedence)))
        for si, s in enumerate(stations):
            for t in range(sim.iteration):
                inwin = or_(*[and_(le(times[i][0], t), lt(t, times[i][1])) for i in range(len(times)) if station_of[i] == si])
                cx.check("charging_iff_a_session_of_the_station_is_in_its_window", iff(inwin, gt(sim.charging_rates[si, t], 0)))
        cx.observe("iteration", sim.iteration)
        return
    cx.check("one_snapshot_per_period", [r["t"] for r in snap.rows] == list(range(sim.iteration)))
    # --- exactly one plug / unplug per session, at its own times
    for i, ev in enumerate(evs):
        plugs = [e for e in hist if e.event_type == "Plugin" and e.ev is ev]
        unplugs = [e for e in hist if e.event_type == "Unplug" and e.ev is ev]
        cx.check("one_plugin[%d]" % i, len(plugs) == 1)
        cx.check("one_unplug[%d]" % i, len(unplugs) == 1)
        if len(plugs) == 1 and len(unplugs) == 1:
            cx.check("plugin_ts[%d]" % i, eq(plugs[0].timestamp, times[i][0]))
            cx.check("unplug_ts[%d]" % i, eq(unplugs[0].timestamp, times[i][1]))
        cx.check("in_ev_history[%d]" % i, sim.ev_history.get(ev.session_id) is ev)
    cx.check("history_size", len(hist) == 2 * len(evs) + len(rts))
    # --- order of handling: time, then Unplug < Plugin < Recompute
    for k in range(len(hist) - 1):
        cx.check("time_order", le(hist[k].timestamp, hist[k + 1].timestamp))
        cx.check("precedence_order", implies(eq(hist[k].timestamp, hist[k + 1].timestamp), le(hist[k].precedence, hist[k + 1].precedence)))
    # --- each event handled in the period of its timestamp
    prev = 0
    for r in snap.rows:
        for e in hist[prev:r["nhist"]]:
            cx.check("handled_in_own_period", eq(e.timestamp, r["t"]))
        prev = r["nhist"]
    # --- connected exactly on [arrival, departure)
    back_to_back = False
    for r in snap.rows:
        t = r["t"]
        for si, s in enumerate(stations):
            occ = r["conn"][s[0]]
            mine = [i for i in range(len(evs)) if station_of[i] == si]
            cx.check("occupant_is_a_session_of_this_station", occ is None or occ in ["sess%d" % i for i in mine])
            for i in mine:
                a, d = times[i]
                cx.check("connected_iff_in_window", iff(and_(le(a, t), lt(t, d)), occ == "sess%d" % i))
    for i in range(len(evs)):
        for j in range(len(evs)):
            if i != j and station_of[i] == station_of[j] and cx.mode == "sym":
                pass
    # --- recorded rates non-zero exactly while connected (pilot > 0 in every period for the scripted, mr=1 scheduler)
    for r in snap.rows:
        t = r["t"]
        for si, s in enumerate(stations):
            occ = r["conn"][s[0]]
            rate = sim.charging_rates[si, t]
            if occ is None:
                cx.check("rate_zero_when_vacant", eq(rate, 0))
            else:
                cx.check("rate_is_pilot_when_connected", eq(rate, sim.pilot_signals[si, t]))
                if (sched == "scripted" and mr == 1) or sched == "uncontrolled":
                    cx.check("rate_positive_when_connected", gt(rate, 0))
    if sched in ("uncontrolled", "fcfs") and req is None:
        for r in snap.rows:
            t = r["t"]
            for si, s in enumerate(stations):
                if r["conn"][s[0]] is not None:
                    cx.check("real_scheduler_charges_connected_ev", eq(sim.charging_rates[si, t], 32))
    cx.observe("iteration", sim.iteration)
    cx.observe("rates", sim.charging_rates[:, : sim.iteration])
    cx.observe("history", [(e.event_type, e.timestamp) for e in hist])


def jobs(tier):
    js = []
    S1 = [("A", "EVSE", 208, 0)]
    S2 = [("A", "EVSE", 208, 0), ("B", "CC", 240, 0)]
    if tier == "quick":
        cfgs = [
            (S1, (0, 0), 3, "scripted", 1, False, 0),
            (S2, (0, 1), 3, "scripted", 1, True, 0),
            (S2, (0, 0), 3, "scripted", None, False, 1),
            (S1, (0, 0), 3, "scripted", 2, False, 0),
            (S2, (0, 1), 3, "empty", 1, False, 0),
            (S1, (0, 0), 3, "uncontrolled", 1, False, 0),
            (S2, (0, 1), 3, "fcfs", 1, True, 0),
            (S2, (0, 0, 1), 3, "scripted", 1, False, 0),
            (S1, (0, 0), 3, "scripted", 1, False, 0, "sym"),
            (S2, (0, 1), 3, "scripted", None, True, 0, "sym"),
            (S2, (0, 0), 3, "uncontrolled", 1, False, 0, "sym"),
            (S2, (0, 1), 3, "scripted", 1, False, 0, None, True),
            (S2, (0, 0), 3, "scripted", 1, False, 0, None, False, True),
        ]
    else:
        cfgs = []
        for st, so in ((S1, (0, 0, 0)), (S2, (0, 0, 1)), (S2, (0, 1, 1)), (S2, (0, 1, 0))):
            for sched, mr in (("scripted", 1), ("scripted", None), ("scripted", 2), ("empty", 1), ("uncontrolled", 1), ("fcfs", 1)):
                for nrec in (0, 1):
                    if sched in ("uncontrolled", "fcfs", "empty") and nrec:
                        continue
                    cfgs.append((st, so, 4, sched, mr, st is S2, nrec))
                    if nrec == 0 and len(set(so)) < 3 and sched != "empty":
                        cfgs.append((st, so, 3, sched, mr, st is S2, nrec, "sym"))
                    if sched == "scripted" and mr == 1 and nrec == 0:
                        cfgs.append((st, so, 4 if len(so) < 3 else 3, sched, mr, st is S2, nrec, None, True))
                    if sched in ("scripted", "uncontrolled") and mr == 1 and len(so) < 3:
                        cfgs.append((st, so, 4, sched, mr, st is S2, nrec, None, False, True))
    for cfg in cfgs:
        st, so, H, sched, mr, cons, nrec = cfg[:7]
        req = cfg[7] if len(cfg) > 7 else None
        jr = len(cfg) > 8 and cfg[8]
        rq = len(cfg) > 9 and cfg[9]
        name = "events[n=%d,sess=%s,H=%d,%s,mr=%s,cons=%s,rec=%d%s%s%s]" % (len(st), "".join(map(str, so)), H, sched, mr, int(cons), nrec, ",req=sym" if req else "", ",interrupt+json+resume" if jr else "", ",reused_queue" if rq else "")
        js.append(Job(name, h_events, dict(stations=st, station_of=so, H=H, sched=sched, mr=mr, constraint=cons, n_recompute=nrec, req=req, json_resume=jr, reuse_queue=rq),
                      functions=simlib.SIM_FUNCS, expect_tags=("terminated", "interrupted_and_reloaded") if jr else (("terminated", "queue_object_reused") if rq else ("terminated",)), max_paths=60000, timeout=3000,
                      bounds=dict(stations=len(st), sessions=len(so), horizon=H, recompute_events=nrec, scheduler=sched, max_recompute=mr, requested_energy_kWh=("(0,2] symbolic: sessions may be fully charged before they leave" if req else 50000),
                                  note="event times symbolic integers in [0,H]; every interleaving inside the bound is one path"),
                      cost=(10 ** len(so)) * (H ** 2) * (1 + nrec * H)))
    return js
