"""C05 - the scheduler is invoked exactly when required and sees the true, isolated state.

h_view: the real Simulator.run() with symbolic event times / pilots / battery parameters and a recording scheduler that
queries the real Interface at every call; oracle written from the statement.
h_isolation: two runs on the same symbolic inputs, one with a scheduler that overwrites (in place) everything it is handed;
the trajectories and the network dump must be valid-equal.
"""
from datetime import timedelta

from symx import env
from symx.core import le, lt, ge, gt, eq, ne, and_, or_, implies, not_, iff, sym_max, sym_sum, is_sym
from symx.run import Job
from props import simlib
from props.simlib import make_network, make_battery, make_sim, Snap, sym_times, acn, allowed_pilot, START
from props.C04 import flatten, same_state

ASSUMPTIONS = simlib.SIM_ASSUMPTIONS + [
    "sessions: symbolic integer times in [0,H], symbolic requests (so that sessions become satisfied mid-run), ideal batteries with symbolic capacity",
    "max_recompute with a never-run scheduler and no event: the code's reading (only the max_recompute clause may trigger it) is the one judged",
    "poisoning scheduler mutates with concrete arithmetic (overwritten in place with 1 / flipped / reversed) every array/list/attribute of every SessionInfo and of the InfrastructureInfo",
]
FUNCS = simlib.SIM_FUNCS + ["acnportal.acnsim.interface.Interface.active_sessions/infrastructure_info/last_applied_pilot_signals/last_actual_charging_rate/get_prev_peak/current_datetime"]


def build(cx, stations, station_of, H, mr, n_recompute, poison, table, tag="", via_update=False):
    A = acn()
    from acnportal.algorithms import BaseAlgorithm

    snap = Snap()
    sim_ref = [None]
    net = make_network(cx, stations, ([1] * len(stations), 70), snap, sim_ref)
    evs = []
    for i in range(len(station_of)):
        a, d, req, cap = table["times"][i] + (table["req"][i], table["cap"][i])
        evs.append(A.EV(a, d, req, stations[station_of[i]][0], "sess%d" % i, A.Battery(cap, 0, 40)))
    calls = []
    calls_at_registration = []

    def pilot(sid, t):
        key = (sid, t)
        if key not in table["p"]:
            table["p"][key] = cx.real("p_%s_%d" % (sid, t), lo=0, hi=32)
        return table["p"][key]

    class Rec(BaseAlgorithm):
        def __init__(self):
            super().__init__()
            self.max_recompute = mr

        def register_interface(self, interface):
            # a scheduler may look at the site as soon as it is attached (period 0, before any event has been applied):
            # read-only queries, whose answers must not be what a later invocation is shown
            super().register_interface(interface)
            peek = (interface.active_sessions(), dict(interface.last_actual_charging_rate), dict(interface.last_applied_pilot_signals),
                    interface.infrastructure_info(), interface.current_time)
            calls_at_registration.append(len(peek[0]))

        def schedule(self, active_sessions):
            it = self.interface
            sim = it._simulator
            t = it.current_time
            infra = it.infrastructure_info()
            rec = dict(t=t, dt=it.current_datetime, sessions=[(s.station_id, s.session_id, s.requested_energy, s.energy_delivered, s.arrival, s.departure,
                                                              s.estimated_departure, s.current_time) for s in active_sessions],
                       true=[(sid, sim.network.get_ev(sid)) for sid in sim.network.station_ids],
                       true_energy={sid: (sim.network.get_ev(sid).energy_delivered if sim.network.get_ev(sid) is not None else None) for sid in sim.network.station_ids},
                       true_rate={sid: (sim.network.get_ev(sid).current_charging_rate if sim.network.get_ev(sid) is not None else None) for sid in sim.network.station_ids},
                       rates=dict(it.last_actual_charging_rate), peak=it.get_prev_peak(), pilots=dict(it.last_applied_pilot_signals),
                       infra=dict(cm=infra.constraint_matrix.copy(), lim=infra.constraint_limits.copy(), ph=infra.phases.copy(), v=infra.voltages.copy(),
                                  cids=list(infra.constraint_ids), sids=list(infra.station_ids), maxp=infra.max_pilot.copy(), minp=infra.min_pilot.copy(),
                                  allow=[a.copy() for a in infra.allowable_pilots], cont=infra.is_continuous.copy()),
                       nhist=len(sim.event_history), period=it.period, mr=it.max_recompute_time)
            calls.append(rec)
            if poison:
                # the (deprecated, still public) EV view: a look-ahead "dry run" on the copies it hands out
                import warnings as _w

                with _w.catch_warnings():
                    _w.simplefilter("ignore")
                    for ev_copy in it.active_evs:
                        ev_copy.charge(4.0, 208, 5)
                        ev_copy._battery.reset(0)
                for s in active_sessions:
                    s.energy_delivered = s.energy_delivered * 0.5 + 1
                    s.requested_energy = 0
                    s.arrival, s.departure, s.estimated_departure, s.current_time = 77, 99, 88, 55
                    s.station_id, s.session_id = "X", "Y"
                    s.min_rates[:] = 7
                    s.max_rates[:] = 3
                for arr in (infra.constraint_matrix, infra.constraint_limits, infra.phases, infra.voltages, infra.max_pilot, infra.min_pilot):
                    arr[...] = 1
                for arr in infra.allowable_pilots:
                    arr[...] = 1
                infra.is_continuous[:] = ~infra.is_continuous
                infra.constraint_ids.append("poison")
                infra.station_ids.reverse()
                infra._station_ids_dict.clear()
                active_sessions.clear()
            return {s[0]: [pilot(s[0], t)] for s in stations}

    if via_update:
        # the simulator is built with a placeholder scheduler (recomputing every 2 periods) which is then replaced through the public
        # update_scheduler(): from then on only the new scheduler's max_recompute counts
        class Placeholder(BaseAlgorithm):
            def __init__(self):
                super().__init__()
                self.max_recompute = 2

            def schedule(self, active_sessions):
                return {}

        sim = make_sim(cx, net, Placeholder(), evs, recompute_at=table["rts"])
        sim.update_scheduler(Rec())
    else:
        sim = make_sim(cx, net, Rec(), evs, recompute_at=table["rts"])
    sim_ref[0] = sim
    return sim, net, evs, calls, snap


def inputs(cx, stations, station_of, H, n_recompute):
    times = sym_times(cx, len(station_of), H, station_of)
    return dict(times=times, req=[cx.real("req%d" % i, lo=0, lo_open=True, hi=30) for i in range(len(station_of))],
                cap=[cx.real("cap%d" % i, lo=0, lo_open=True, hi=100) for i in range(len(station_of))],
                rts=[cx.int("r%d" % k, 0, H) for k in range(n_recompute)], p={})


def h_view(cx, stations, station_of, H, mr, n_recompute, via_update=False):
    env.install(cx)
    tb = inputs(cx, stations, station_of, H, n_recompute)
    sim, net, evs, calls, snap = build(cx, stations, station_of, H, mr, n_recompute, False, tb, via_update=via_update)
    sim.run()
    cx.tag("terminated")
    n = sim.iteration
    times = tb["times"]
    ts_all = [a for a, _ in times] + [d for _, d in times] + list(tb["rts"])
    called = {}
    for c in calls:
        called[c["t"]] = called.get(c["t"], 0) + 1
    cx.check("at_most_once_per_period", all(v == 1 for v in called.values()))
    last = None
    for t in range(n):
        ev_t = or_(*[eq(x, t) for x in ts_all])
        timer = (mr is not None) and (last is None or t - last >= mr)
        cx.check("invoked_iff_required", iff(or_(ev_t, timer), t in called), note="t=%d mr=%s last=%s" % (t, mr, last))
        if t in called:
            last = t
            if not timer:
                cx.tag("invoked_by_event_only")
            else:
                cx.tag("invoked_by_timer")
        else:
            cx.tag("not_invoked")
    V = {s[0]: s[2] for s in stations}
    row = {s[0]: i for i, s in enumerate(stations)}
    for c in calls:
        t = c["t"]
        cx.check("current_datetime", c["dt"] == START + timedelta(minutes=5) * t)
        cx.check("period_and_max_recompute", c["period"] == 5 and c["mr"] == mr)
        # this period's events already applied: the connected set is exactly {a <= t < d}
        for sid, ev in c["true"]:
            for i in range(len(evs)):
                if evs[i].station_id == sid:
                    cx.check("events_applied_before_call", iff(and_(le(times[i][0], t), lt(t, times[i][1])), ev is evs[i]))
        # sessions observed = connected and not satisfied, with the true numbers
        seen = {s[1]: s for s in c["sessions"]}
        for sid, ev in c["true"]:
            if ev is None:
                continue
            e_true = c["true_energy"][sid]
            active = gt(ev.requested_energy - e_true, 1e-3)
            cx.check("observed_iff_connected_and_unsatisfied", iff(active, ev.session_id in seen))
            if ev.session_id in seen:
                cx.tag("session_observed")
                s = seen[ev.session_id]
                cx.check("session_fields_true", and_(s[0] == sid, eq(s[2], ev.requested_energy), eq(s[3], e_true), eq(s[4], ev.arrival), eq(s[5], ev.departure),
                                                      eq(s[6], ev.estimated_departure), s[7] == t))
                cx.check("last_actual_rate_is_true_rate", eq(c["rates"].get(ev.session_id), c["true_rate"][sid]))
                if t >= 1:
                    cx.check("last_actual_rate_is_recorded_prev_rate", implies(le(ev.arrival, t - 1), eq(c["rates"].get(ev.session_id), sim.charging_rates[row[sid], t - 1])))
                if t >= 2:
                    cx.check("last_pilot_is_recorded_prev_pilot", iff(le(ev.arrival, t - 1), ev.session_id in c["pilots"]))
                    if ev.session_id in c["pilots"]:
                        cx.tag("prev_pilot_seen")
                        cx.check("last_pilot_value", eq(c["pilots"][ev.session_id], sim.pilot_signals[row[sid], t - 1]))
            else:
                cx.tag("satisfied_session_hidden")
        cx.check("no_foreign_sessions", all(k in [e.session_id for _, e in c["true"] if e is not None] for k in seen))
        if t < 2:
            cx.check("no_prev_pilots_before_third_period", c["pilots"] == {})
        agg = [sym_sum([sim.charging_rates[r, u] for r in range(len(stations))]) for u in range(t)]
        cx.check("prev_peak", eq(c["peak"], sym_max([0] + agg)))
        inf = c["infra"]
        import numpy as np

        cx.check("infrastructure_true", bool(np.array_equal(inf["cm"], net.constraint_matrix) and np.array_equal(inf["lim"], net.magnitudes) and np.array_equal(inf["ph"], net._phase_angles)
                                             and np.array_equal(inf["v"], net._voltages) and inf["cids"] == net.constraint_index and inf["sids"] == net.station_ids
                                             and list(inf["maxp"]) == [net._EVSEs[s].max_rate for s in net.station_ids] and list(inf["minp"]) == [net._EVSEs[s].min_rate for s in net.station_ids]
                                             and all(list(a) == list(net._EVSEs[s].allowable_pilot_signals) for a, s in zip(inf["allow"], net.station_ids))
                                             and list(inf["cont"]) == [net._EVSEs[s].is_continuous for s in net.station_ids]))
    cx.observe("calls", [c["t"] for c in calls])
    cx.observe("rates", sim.charging_rates[:, :n])


def h_isolation(cx, stations, station_of, H, mr, n_recompute):
    env.install(cx)
    tb = inputs(cx, stations, station_of, H, n_recompute)
    sim1, net1, evs1, calls1, _ = build(cx, stations, station_of, H, mr, n_recompute, False, tb)
    sim1.run()
    sim2, net2, evs2, calls2, _ = build(cx, stations, station_of, H, mr, n_recompute, True, tb)
    sim2.run()
    cx.tag("terminated")
    cx.check("same_length", sim1.iteration == sim2.iteration)
    cx.check("same_calls", [c["t"] for c in calls1] == [c["t"] for c in calls2])
    n = min(sim1.iteration, sim2.iteration)
    conj = []
    for t in range(n):
        for r in range(len(stations)):
            conj.append(eq(sim1.pilot_signals[r, t], sim2.pilot_signals[r, t]))
            conj.append(eq(sim1.charging_rates[r, t], sim2.charging_rates[r, t]))
    for e1, e2 in zip(evs1, evs2):
        conj.append(eq(e1.energy_delivered, e2.energy_delivered))
    cx.check("trajectory_unaffected_by_mutating_scheduler", and_(*conj))

    def netdump(net):
        reg = net._to_registry()[0]["context_dict"]
        # ids differ between the two runs: flatten values in registration order of ids
        fl = flatten([reg[k]["attributes"] for k in reg if reg[k]["class"].endswith("RecNet") or reg[k]["class"].endswith("EVSE")])
        # registry object ids are memory addresses: not part of the state
        return [(p, "<id>" if isinstance(v, str) and v.isdigit() and len(v) > 8 else v) for p, v in fl]

    same_state(cx, "network_unaffected_by_mutating_scheduler", netdump(net1), netdump(net2))
    # what the scheduler is shown at later calls is still the truth
    for c1, c2 in zip(calls1, calls2):
        same_state(cx, "later_views_unaffected", flatten([c1["infra"], c1["sessions"], c1["rates"], c1["peak"], c1["pilots"]]),
                   flatten([c2["infra"], c2["sessions"], c2["rates"], c2["peak"], c2["pilots"]]))
    cx.observe("rates2", sim2.charging_rates[:, :n])


def jobs(tier):
    S1 = [("A", "EVSE", 208, 0)]
    S2 = [("A", "EVSE", 208, 0), ("B", "EVSE", 240, 0)]
    js = []
    if tier == "quick":
        view = [(S2, (0, 1), 3, 1, 0), (S1, (0, 0), 3, None, 1), (S2, (0, 1), 3, 2, 0), (S1, (0,), 4, 3, 0)]
        iso = [(S2, (0, 1), 3, 1, 0), (S1, (0, 0), 3, None, 1)]
    else:
        view = [(S2, (0, 1), 4, 1, 0), (S2, (0, 0), 4, None, 1), (S2, (0, 1), 4, 2, 1), (S2, (0, 1), 4, 3, 0), (S2, (0, 0, 1), 3, 1, 0), (S2, (0, 0, 1), 4, 2, 0), (S1, (0,), 5, 3, 1)]
        iso = [(S2, (0, 1), 4, 1, 0), (S2, (0, 0), 4, None, 1), (S2, (0, 0, 1), 3, 2, 0)]
    for st, so, H, mr, nrec in view:
        js.append(Job("view[n=%d,sess=%s,H=%d,mr=%s,rec=%d]" % (len(st), "".join(map(str, so)), H, mr, nrec), h_view,
                      dict(stations=st, station_of=so, H=H, mr=mr, n_recompute=nrec), functions=FUNCS,
                      expect_tags=("terminated", "session_observed") + (("not_invoked",) if mr != 1 else ()) + (("invoked_by_timer",) if mr else ()),
                      max_paths=100000, timeout=3000, bounds=dict(stations=len(st), sessions=len(so), horizon=H, max_recompute=mr, recompute_events=nrec),
                      cost=10 ** len(so) * H * H * (1 + nrec * H)))
    for st, so, H, mr, nrec in ([(S1, (0, 0), 4, None, 0), (S2, (0, 1), 3, 3, 0)] if tier == "quick" else [(S2, (0, 0), 4, None, 1), (S2, (0, 1), 4, 3, 0), (S2, (0, 1), 4, 1, 0)]):
        js.append(Job("view[n=%d,sess=%s,H=%d,mr=%s,rec=%d,via_update_scheduler]" % (len(st), "".join(map(str, so)), H, mr, nrec), h_view,
                      dict(stations=st, station_of=so, H=H, mr=mr, n_recompute=nrec, via_update=True), functions=FUNCS + ["acnportal.acnsim.simulator.Simulator.update_scheduler"],
                      expect_tags=("terminated", "session_observed") + (("not_invoked",) if mr != 1 else ()) + (("invoked_by_timer",) if mr else ()),
                      max_paths=100000, timeout=3000, bounds=dict(stations=len(st), sessions=len(so), horizon=H, max_recompute=mr, recompute_events=nrec, scheduler="attached through update_scheduler() after construction with a placeholder (max_recompute 2)"),
                      cost=10 ** len(so) * H * H))
    for st, so, H, mr, nrec in iso:
        js.append(Job("isolation[n=%d,sess=%s,H=%d,mr=%s,rec=%d]" % (len(st), "".join(map(str, so)), H, mr, nrec), h_isolation,
                      dict(stations=st, station_of=so, H=H, mr=mr, n_recompute=nrec), functions=FUNCS, expect_tags=("terminated",),
                      max_paths=100000, timeout=3000, bounds=dict(stations=len(st), sessions=len(so), horizon=H, max_recompute=mr, recompute_events=nrec, runs_per_path=2),
                      cost=2 * 10 ** len(so) * H * H * (1 + nrec * H)))
    return js
