"""C14 - battery models follow their documented charging laws.

Ideal: delivered power = min(pilot power, max power, power that exactly fills the battery), every parameter symbolic.
Two-stage (continuous): the real Linear2StageBattery._charge is executed symbolically from an arbitrary state and its
result is compared with the solution of the documented ODE
      dE/dt = min(pilot power, P_max(soc)),  P_max(soc) = max_power                       for soc <  transition_soc
                                                       = max_power (1-soc)/(1-transition)  for soc >= transition_soc
written independently (in hours and kWh, not in the code's per-period SoC units) by cases: constant power all period /
crossing into the ramp-down at time t* / ramp-down all period.  exp is an uninterpreted function; the code's exp argument
is first shown (pure rational arithmetic) to equal the oracle's exponent, then the closed forms are compared.
Relations (T = T/2 twice; monotone in pilot and in T) are two executions of the real code on the same symbolic state;
they use ground instances of exp(a)exp(b)=exp(a+b), exp(a)exp(-a)=1 and monotonicity for the occurring arguments.
"""
import math

import z3

from symx import env, core
from symx.core import le, lt, ge, gt, eq, ne, and_, or_, implies, not_, iff, ite, sym_min, SymReal, is_sym
from symx.run import Job

FUNCS = [
    "acnportal.acnsim.models.battery.Battery.__init__/charge/reset/_soc",
    "acnportal.acnsim.models.battery.Linear2StageBattery.__init__/charge/_charge/_charge_stepwise",
]
ASSUMPTIONS = [
    "Python floats modelled as exact reals (IEEE rounding outside the claim); noise off",
    "np.exp is an uninterpreted function with ground facts (positivity, exp(x)>=1+x, monotone, exp(a)exp(b)=exp(a+b) and exp(a)exp(-a)=1 on occurring arguments): unsat is sound for the real exp; sat is reported only after concrete replay with math.exp",
    "state: capacity>0, 0<=charge<=capacity (charge<capacity for the two-stage law), max_power>0, 0<=transition_soc<1, pilot>=0, voltage>0, period>0",
    "law equality and bounds: every parameter symbolic; splitting/monotonicity: voltage and capacity concrete scale factors (stated per job), the rest symbolic",
    "the stepwise (legacy) calculation is only required to satisfy the physical bounds (C03), zero-pilot and reset",
]


class _RecNP:
    """battery.np in concrete replays: records exp() arguments (so the oracle can compare exponents), otherwise numpy"""

    def __init__(self, calls):
        import numpy

        self._np, self._calls = numpy, calls

    def __getattr__(self, k):
        return getattr(self._np, k)

    def exp(self, x):
        self._calls.append(x)
        return math.exp(x)


def _install(cx):
    env.install(cx)
    calls = []
    if cx.mode == "conc":
        cx.patch(env.mod("acnportal.acnsim.models.battery"), "np", _RecNP(calls), sym_only=False)
    return calls


def _exp_args(cx, calls):
    if cx.mode == "sym":
        return [SymReal(a) for a in cx.exp_args]
    return list(calls)


def EXP(cx, x):
    if cx.mode == "sym":
        return core.sym_exp(x) if is_sym(x) else math.exp(x)
    return math.exp(x)


def _valid(cx, e, ms=20000):
    """is the arithmetic fact e valid on this path? (small side query; proven facts are then added as lemmas)"""
    if cx._check(z3.Not(e), timeout=500) == z3.unsat:
        return True
    return cx.check_abstracted(z3.Not(e), ms) == z3.unsat


def _strengthen_exp(cx):
    """ground instances of the functional equation for the arguments that occurred on this path.
    Arithmetic side conditions (a == b, a + b == c) are first PROVED by separate small queries and then added as lemmas,
    so that congruence on the uninterpreted exp needs no nonlinear reasoning inside the main query."""
    if cx.mode != "sym":
        return
    args = list(cx.exp_args)
    E = core.EXP
    facts = []
    for a in args:
        facts += [E(a) * E(-a) == 1, E(-a) > 0, E(-a) >= 1 - a]
    for i, a in enumerate(args):
        for b in args[i + 1:]:
            if _valid(cx, a == b):
                facts += [a == b, E(a) == E(b)]
                continue
            if _valid(cx, a <= b):
                facts += [a <= b, E(a) <= E(b)]
            elif _valid(cx, b <= a):
                facts += [b <= a, E(b) <= E(a)]
            d = a - b
            facts += [E(a) == E(b) * E(d), E(d) > 0, E(d) >= 1 + d, E(b) == E(a) * E(-d), E(-d) > 0, E(-d) >= 1 - d]
    for i, a in enumerate(args):
        for b in args[i:]:
            for c in args:
                if c is a or c is b:
                    continue
                if _valid(cx, a + b == c):
                    facts += [a + b == c, E(a) * E(b) == E(c)]
    cx.solver.add(*facts)
    cx.model = None


def _state(cx, two_stage, cap=None, V=None):
    cap = cx.real("capacity", lo=0, lo_open=True, hi=200) if cap is None else cap
    charge = cx.real("charge", lo=0)
    cx.assume(lt(charge, cap) if two_stage else le(charge, cap))
    maxp = cx.real("max_power", lo=0, lo_open=True, hi=100)
    ts = cx.real("transition_soc", lo=0, hi=1, hi_open=True) if two_stage else None
    V = cx.real("voltage", lo=0, lo_open=True, hi=1000) if V is None else V
    return cap, charge, maxp, ts, V


def _mk(kind, cap, charge, maxp, ts, init=None):
    import acnportal.acnsim.models.battery as B

    if kind == "ideal":
        b = B.Battery(cap, charge if init is None else init, maxp)
    else:
        b = B.Linear2StageBattery(cap, charge if init is None else init, maxp, transition_soc=ts, charge_calculation=kind)
    if init is not None:
        b.reset(charge)
    return b


def _charge_of(b):
    return b._to_dict()[0]["_current_charge"]


def h_ideal(cx):
    _install(cx)
    cap, charge, maxp, _, V = _state(cx, False)
    init = cx.real("init_charge", lo=0)
    cx.assume(le(init, cap))
    b = _mk("ideal", cap, charge, maxp, None, init=init)
    pilot = cx.real("pilot", lo=0, hi=1000)
    T = cx.real("period", lo=0, lo_open=True, hi=1440)
    rate = b.charge(pilot, V, T)
    hours = T / 60
    law = sym_min(pilot * V / 1000, maxp, (cap - charge) / hours)
    cx.tag("charged")
    cx.observe("rate", rate)
    cx.check("ideal:power=min(pilot,max,fill)", eq(rate * V / 1000, law))
    cx.check("ideal:stored_power", eq(b.current_charging_power, law))
    cx.check("ideal:charge_advances_by_power*hours", eq(_charge_of(b), charge + law * hours))
    # a second step from the reached state obeys the same law (the fill limit must follow the CURRENT charge)
    c1 = _charge_of(b)
    pilot2 = cx.real("pilot2", lo=0, hi=1000)
    rate2 = b.charge(pilot2, V, T)
    law2 = sym_min(pilot2 * V / 1000, maxp, (cap - c1) / hours)
    cx.check("ideal:second_step_law", eq(rate2 * V / 1000, law2))
    cx.check("ideal:never_above_capacity", le(_charge_of(b), cap))
    cx.observe("rate2", rate2)


def _decide(cx, prop):
    """fork on an oracle-side case distinction"""
    if cx.mode == "conc" or not prop.symbolic():
        return prop.weak()
    return bool(core.SymBool(prop.z3()))


def _law_two_stage(cx, cap, charge, maxp, ts, pilot, V, T):
    """final charge according to the documented law (independent derivation, physical units) + the exponent used"""
    hours = T / 60
    # constant-power stage draws min(pilot power, max power); the case is decided by an oracle-side fork
    P = pilot * V / 1000 if _decide(cx, le(pilot * V / 1000, maxp)) else maxp
    k = maxp / ((1 - ts) * cap)  # ramp-down: d(1-soc)/dt = -k (1-soc)
    soc0 = charge / cap
    soc_x = 1 - P * (1 - ts) / maxp  # soc at which P_max(soc) falls to P
    t_x = (soc_x - soc0) * cap / P  # hours until the ramp-down starts (if soc0 < soc_x)
    return dict(P=P, k=k, soc0=soc0, soc_x=soc_x, t_x=t_x, hours=hours)


def h_two_stage_law(cx, sym_V_cap=True, V=None, cap=None):
    calls = _install(cx)
    cap, charge, maxp, ts, V = _state(cx, True, cap=cap, V=V)
    init = cx.real("init_charge", lo=0)
    cx.assume(le(init, cap))
    b = _mk("continuous", cap, charge, maxp, ts, init=init)
    pilot = cx.real("pilot", lo=0, lo_open=True, hi=1000)
    T = cx.real("period", lo=0, lo_open=True, hi=1440)
    rate = b.charge(pilot, V, T)
    new = _charge_of(b)
    L = _law_two_stage(cx, cap, charge, maxp, ts, pilot, V, T)
    args = _exp_args(cx, calls)
    cx.observe("rate", rate)
    cx.observe("new_charge", new)
    cx.check("rate_is_average_power", eq(rate * V / 1000 * L["hours"], new - charge))
    cx.check("stored_power_is_average", eq(b.current_charging_power * L["hours"], new - charge))
    in_ramp = ge(L["soc0"], L["soc_x"])
    stays_const = and_(lt(L["soc0"], L["soc_x"]), ge(L["t_x"], L["hours"]))
    crossing = and_(lt(L["soc0"], L["soc_x"]), lt(L["t_x"], L["hours"]))
    if not args:
        cx.tag("constant_power_all_period")
        cx.check("law:no_exp=>constant_stage", stays_const)
        cx.check("law:constant_power", eq(new, charge + L["P"] * L["hours"]))
        return
    a = args[-1]
    # which exponent the law prescribes
    x_ramp = -L["k"] * L["hours"]
    x_cross = -L["k"] * (L["hours"] - L["t_x"])
    is_ramp = _decide(cx, in_ramp)
    if is_ramp:
        cx.tag("rampdown_all_period")
        cx.check("law:exp_used=>not_constant_stage", not_(stays_const))
        if cx.check("law:rampdown_exponent", eq(a, x_ramp)):
            cx.assume(eq(a, x_ramp))
        y = EXP(cx, a)
        cx.check("law:rampdown_solution", eq(new, cap * (1 - (1 - L["soc0"]) * y)))
    else:
        cx.tag("crossing")
        cx.check("law:exp_used=>crossing", crossing)
        if cx.check("law:crossing_exponent", eq(a, x_cross)):
            cx.assume(eq(a, x_cross))
        y = EXP(cx, a)
        cx.check("law:crossing_solution", eq(new, cap * (1 - (1 - L["soc_x"]) * y)))


def _decide_(cx, prop):
    """fork on an oracle-side case distinction"""
    if cx.mode == "conc":
        return prop.weak()
    if not prop.symbolic():
        return prop.weak()
    return bool(core.SymBool(prop.z3()))


def h_zero_reset(cx, kind):
    _install(cx)
    two = kind != "ideal"
    cap, charge, maxp, ts, V = _state(cx, two)
    init = cx.real("init_charge", lo=0)
    cx.assume(le(init, cap))
    b = _mk(kind, cap, charge, maxp, ts, init=init)
    T = cx.real("period", lo=0, lo_open=True, hi=1440)
    r0 = b.charge(0, V, T)
    cx.check("zero_pilot:rate0", eq(r0, 0))
    cx.check("zero_pilot:charge_unchanged", eq(_charge_of(b), charge))
    cx.check("zero_pilot:power0", eq(b.current_charging_power, 0))
    pilot = cx.real("pilot", lo=0, hi=1000)
    b.charge(pilot, V, T)
    mid = _charge_of(b)
    b.charge(0, V, T)
    cx.check("zero_pilot_after_charging:unchanged", and_(eq(_charge_of(b), mid), eq(b.current_charging_power, 0)))
    b.reset()
    d = b._to_dict()[0]
    cx.check("reset:restores_initial_charge", eq(d["_current_charge"], init))
    cx.check("reset:clears_power", eq(d["_current_charging_power"], 0))
    cx.check("reset:keeps_parameters", and_(eq(d["_capacity"], cap), eq(d["_max_power"], maxp), eq(d["_init_charge"], init)))
    x = cx.real("reset_to", lo=0)
    cx.assume(le(x, cap))
    b.charge(pilot, V, T)
    b.reset(x)
    cx.check("reset(x):sets_charge", and_(eq(_charge_of(b), x), eq(b.current_charging_power, 0)))
    # after reset the battery behaves like a fresh one in that state
    b2 = _mk(kind, cap, x, maxp, ts)
    if two:
        cx.assume(lt(x, cap))
    ra, rb = b.charge(pilot, V, T), b2.charge(pilot, V, T)
    cx.check("reset:behaves_like_fresh", and_(eq(ra, rb), eq(_charge_of(b), _charge_of(b2))))
    # an explicit reset(x) earlier in the history does not change what a later default reset() restores
    b.reset()
    d = b._to_dict()[0]
    cx.check("reset_after_reset(x):restores_constructed_charge", and_(eq(d["_current_charge"], init), eq(d["_init_charge"], init), eq(d["_current_charging_power"], 0)))
    cx.tag("done")
    cx.observe("r", [r0, ra])


def h_split(cx, V, cap, parts):
    """charging for T equals charging `parts` times for T/parts"""
    _install(cx)
    cap, charge, maxp, ts, V = _state(cx, True, cap=cap, V=V)
    pilot = cx.real("pilot", lo=0, lo_open=True, hi=1000)
    T = cx.real("period", lo=0, lo_open=True, hi=1440)
    b1 = _mk("continuous", cap, charge, maxp, ts)
    b2 = _mk("continuous", cap, charge, maxp, ts)
    b1.charge(pilot, V, T)
    for _ in range(parts):
        b2.charge(pilot, V, T / parts)
    _strengthen_exp(cx)
    cx.tag("split")
    cx.observe("c1", _charge_of(b1))
    cx.observe("c2", _charge_of(b2))
    cx.check("split:T==%dxT/%d" % (parts, parts), eq(_charge_of(b1), _charge_of(b2)))


def h_mono(cx, V, cap, what):
    _install(cx)
    cap, charge, maxp, ts, V = _state(cx, True, cap=cap, V=V)
    p1 = cx.real("pilot", lo=0, lo_open=True, hi=1000)
    T1 = cx.real("period", lo=0, lo_open=True, hi=1440)
    if what == "pilot":
        p2 = cx.real("pilot_hi", lo=0, hi=1000)
        cx.assume(ge(p2, p1))
        T2 = T1
    else:
        T2 = cx.real("period_hi", lo=0, hi=1440)
        cx.assume(ge(T2, T1))
        p2 = p1
    b1 = _mk("continuous", cap, charge, maxp, ts)
    b2 = _mk("continuous", cap, charge, maxp, ts)
    b1.charge(p1, V, T1)
    b2.charge(p2, V, T2)
    _strengthen_exp(cx)
    cx.tag("mono")
    cx.observe("c1", _charge_of(b1))
    cx.observe("c2", _charge_of(b2))
    cx.check("monotone_in_%s" % what, le(_charge_of(b1), _charge_of(b2)))


def h_mono_ideal(cx, what):
    _install(cx)
    cap, charge, maxp, _, V = _state(cx, False)
    p1 = cx.real("pilot", lo=0, hi=1000)
    T1 = cx.real("period", lo=0, lo_open=True, hi=1440)
    p2, T2 = p1, T1
    if what == "pilot":
        p2 = cx.real("pilot_hi", lo=0, hi=1000)
        cx.assume(ge(p2, p1))
    else:
        T2 = cx.real("period_hi", lo=0, hi=1440)
        cx.assume(ge(T2, T1))
    b1, b2 = _mk("ideal", cap, charge, maxp, None), _mk("ideal", cap, charge, maxp, None)
    b1.charge(p1, V, T1)
    b2.charge(p2, V, T2)
    cx.tag("mono")
    cx.observe("c", [_charge_of(b1), _charge_of(b2)])
    cx.check("ideal_monotone_in_%s" % what, le(_charge_of(b1), _charge_of(b2)))
    b3 = _mk("ideal", cap, charge, maxp, None)
    b3.charge(p1, V, T1 / 2)
    b3.charge(p1, V, T1 / 2)
    cx.check("ideal_split", eq(_charge_of(b3), _charge_of(b1)))


def jobs(tier):
    q = tier == "quick"
    js = [Job("ideal_law", h_ideal, {}, functions=FUNCS, expect_tags=("charged",), bounds=dict(step="two consecutive charge() calls from an arbitrary valid state; all parameters symbolic")),
          Job("two_stage_law[all symbolic]", h_two_stage_law, {}, functions=FUNCS, expect_tags=("constant_power_all_period", "rampdown_all_period", "crossing"), approx=True, timeout=1500,
              bounds=dict(step="one charge() from an arbitrary valid state; capacity, charge, max power, transition soc, pilot, voltage, period all symbolic"), cost=5)]
    for kind in ("ideal", "continuous", "stepwise"):
        js.append(Job("zero_reset[%s]" % kind, h_zero_reset, dict(kind=kind), functions=FUNCS, expect_tags=("done",), approx=(kind == "continuous"), timeout=1500,
                      bounds=dict(sequence="charge(0); charge(p); charge(0); reset(); charge(p); reset(x); charge(p) vs fresh battery; reset()"), cost=3))
    for what in ("pilot", "period"):
        js.append(Job("ideal_mono[%s]" % what, h_mono_ideal, dict(what=what), functions=FUNCS, expect_tags=("mono",)))
    scales = [(240, 100)] if q else [(240, 100), (208, 40), (120, 8)]
    for V, cap in scales:
        js.append(Job("split2[V=%s,cap=%s]" % (V, cap), h_split, dict(V=V, cap=cap, parts=2), functions=FUNCS, expect_tags=("split",), approx=True, timeout=3000,
                      bounds=dict(voltage=V, capacity=cap, rest="symbolic", parts=2), cost=20))
        for what in ("pilot", "period"):
            js.append(Job("mono[%s,V=%s,cap=%s]" % (what, V, cap), h_mono, dict(V=V, cap=cap, what=what), functions=FUNCS, expect_tags=("mono",), approx=True, timeout=3000,
                          bounds=dict(voltage=V, capacity=cap, rest="symbolic"), cost=15))
    # (a three-way split job, T == 3 x T/3, was part of the thorough tier; with three exp terms per query the solver leaves it
    # undecided, so it is not claimed - see DESIGN.md 10.3)
    # one battery object charged twice with different period lengths (harness shared with C03): the second call equals the same
    # call on a fresh battery in that state, i.e. the law has no memory beyond the state of charge
    from props import C03

    for j in C03.jobs(tier):
        if j.name.startswith("two_steps["):
            j.name = "two_calls" + j.name[len("two_steps"):]
            js.append(j)
    return js
