"""C15 - generated sessions are well-formed and their batteries can hold the request.

The real converters acndata_events._convert_to_ev / _datetime_to_timestamp and StochasticEvents._convert_ev_matrix run on
symbolic inputs: connection / disconnection / simulation-start instants as symbolic whole seconds (through a datetime whose
timestamp() is that symbol; in concrete replays a real aware datetime in a non-UTC zone), symbolic delivered energy, maximum
battery power and max_len; symbolic sample rows (arrival h, duration h, energy kWh).  The real batt_cap_fn (closed-form
branch) is executed on a symbolic request and the real Linear2StageBattery it parameterises is charged at full rate for the
whole stay.

Oracles from the statement: floor-of-quotient period indices by integer division, order preservation, stay cap, energy cap,
free capacity >= request, and "delivered at full rate over the stay == requested" for the fit.
"""
import math

import z3

from symx import env, core
from symx.core import le, lt, ge, gt, eq, ne, and_, or_, implies, not_, iff, ite, is_sym, sym_min
from symx.run import Job

FUNCS = [
    "acnportal.acnsim.events.acndata_events.get_evs/generate_events/_convert_to_ev/_datetime_to_timestamp",
    "acnportal.acnsim.events.stochastic_events.StochasticEvents._convert_ev_matrix",
    "acnportal.acnsim.models.battery.batt_cap_fn/_get_init_cap (closed-form branch)", "acnportal.acnsim.models.battery.Linear2StageBattery.__init__/_charge",
    "acnportal.acnsim.models.battery.Battery.__init__", "acnportal.acnsim.models.ev.EV.__init__",
]
ASSUMPTIONS = [
    "documents carry aware datetimes in a zone with a whole-hour UTC offset (job parameter, -8 ... +9 h), the simulation start is given in UTC; instants are whole seconds >= 0 (what ACN-Data delivers); datetime.timestamp() is that integer; Python floats modelled as exact reals, so int(ts / (60*period)) is the exact floor of the quotient (the IEEE counterpart - floor(fl(a/d)) == a div d for a < 2^53, d <= 2^21 - is discharged by cvc5 as separate floating-point queries, one per period, in the thorough tier)",
    "period in {1, 5, 15, 60} minutes (concrete per job); disconnect >= connect; energies, powers, max_len symbolic",
    "stochastic converter: max_len is compared with the duration in the unit the existing test suite pins (hours) although the docstring says periods; the duration handed to capacity_fn is in hours there and in periods in acndata_events - recorded, not judged (the statement's last sentence concerns the fit function itself)",
    "capacity fit: only the closed-form branch (initial SoC at or above the transition SoC) is claimed; paths that enter the binary search (recursion whose depth depends on a transcendental residual) are cut and counted as outside the claim; voltage, period and stay are concrete per job, the request is symbolic; exp of a concrete argument is numpy's double (compared with 1e-9 relative slack)",
]
EXPECT_GLOBAL_TAGS = ("doc:max_len_cut", "doc:force_feasible_cut", "doc:capacity_fn", "matrix:valid", "matrix:invalid_skipped", "fit:closed_form")


class _WallTuple:
    def __init__(self, wall):
        self.wall = wall


class _Delta:
    def __init__(self, secs):
        self.secs = secs

    def total_seconds(self):
        return self.secs


class StubDT:
    """an aware datetime: `secs` is the instant (timestamp()), `offset` the UTC offset of its zone; its wall-clock fields are only
    reachable through timetuple() (understood by the calendar proxy below) and utcoffset()"""

    microsecond = 0

    def __init__(self, secs, offset=0):
        self.secs, self.offset = secs, offset

    def timestamp(self):
        return self.secs

    def timetuple(self):
        return _WallTuple(self.secs + self.offset)

    def utctimetuple(self):
        return _WallTuple(self.secs)

    def utcoffset(self):
        return _Delta(self.offset)


class _CalendarProxy:
    def __getattr__(self, k):
        import calendar

        return getattr(calendar, k)

    def timegm(self, tt):
        if isinstance(tt, _WallTuple):
            return tt.wall
        import calendar

        return calendar.timegm(tt)


def mk_dt(cx, name, tz_hours, lo=0, hi=2 * 10 ** 9):
    secs = cx.int(name, lo, hi)
    if cx.mode == "sym":
        return StubDT(secs, int(tz_hours * 3600)), secs
    import datetime as _dt

    return _dt.datetime.fromtimestamp(secs, _dt.timezone(_dt.timedelta(hours=tz_hours))), secs


class _MathProxy:
    """math as seen by acndata_events: ceil / floor on symbolic reals"""

    def __getattr__(self, k):
        return getattr(math, k)

    def ceil(self, x):
        return core.sym_ceil(x)

    def floor(self, x):
        return core.sym_floor(x)


def _battery_state(b):
    d = b._to_dict()[0]
    return d["_capacity"], d["_init_charge"], d["_current_charge"], d["_max_power"]


def h_doc(cx, period, use_max_len, force_feasible, battery_mode, tz_hours):
    import acnportal.acnsim.events.acndata_events as AE
    import acnportal.acnsim.models.battery as B

    env.install(cx)
    cx.patch(AE, "int", core.sym_int, must_exist=False)
    cx.patch(AE, "min", core.sym_min, must_exist=False)
    cx.patch(AE, "math", _MathProxy())
    cx.patch(AE, "calendar", _CalendarProxy(), must_exist=False)
    cx.patch(AE, "time", _CalendarProxy(), must_exist=False) if False else None
    start, s_secs = mk_dt(cx, "start_secs", 0)
    conn, c_secs = mk_dt(cx, "connect_secs", tz_hours)
    disc, d_secs = mk_dt(cx, "disconnect_secs", tz_hours)
    cx.assume(le(c_secs, d_secs))
    kwh = cx.real("kWhDelivered", lo=0, hi=200)
    # max power x (symbolic number of periods) is a product of two symbols: with force_feasible the power is one of three
    # concrete values (chosen by forking) so that the obligations stay linear; otherwise it is symbolic
    maxp = cx.choice("max_battery_power_choice", [3.3, 6.656, 20.0]) if force_feasible else cx.real("max_battery_power", lo=0, lo_open=True, hi=100)
    max_len = cx.int("max_len", 0, 500) if use_max_len else None
    voltage = cx.real("voltage", lo=100, hi=500)
    doc = {"connectionTime": conn, "disconnectTime": disc, "kWhDelivered": kwh, "sessionID": "sess-7", "spaceID": "CA-303", "timezone": "America/Los_Angeles"}
    calls = []
    params = None
    cap_s = init_s = None
    if battery_mode == "capacity_fn":
        cap_s = cx.real("fn_capacity", lo=0, lo_open=True, hi=400)
        init_s = cx.real("fn_init", lo=0, hi=400)
        cx.assume(le(init_s, cap_s))

        def cap_fn(*a):
            calls.append(a)
            return cap_s, init_s

        params = {"type": B.Linear2StageBattery, "capacity_fn": cap_fn, "kwargs": {"transition_soc": 0.7, "charge_calculation": "stepwise"}}
        cx.tag("doc:capacity_fn")
    elif battery_mode == "two_stage_default":
        params = {"type": B.Linear2StageBattery}
    # through the public entry point: get_evs() asks the data client for the documents of [start, end] and converts them
    asked = []

    class FakeClient:
        def __init__(self, token):
            asked.append(("token", token))

        def get_sessions_by_time(self, site, start_, end_, *a, **k):
            asked.append((site, start_, end_))
            return iter([doc])

    cx.patch(AE, "DataClient", FakeClient, sym_only=False)
    end = start
    evs = AE.get_evs("TOKEN", "caltech", start, end, period, voltage, maxp, max_len, params, force_feasible)
    cx.check("one_ev_per_document", len(evs) == 1)
    cx.check("documents_requested_for_the_given_site_and_window", asked == [("token", "TOKEN"), ("caltech", start, end)])
    ev = evs[0]
    offset = ev.arrival - ev.arrival  # placeholder so that the obligations below are stated on the EV only
    calls_first = list(calls)
    events = AE.generate_events("TOKEN", "caltech", start, end, period, voltage, maxp, max_len=max_len, battery_params=params, force_feasible=force_feasible)
    cx.check("generate_events:one_plugin_event_at_the_arrival", len(events) == 1 and events._queue[0][1].event_type == "Plugin")
    if len(events) == 1:
        cx.check("generate_events:timestamp=arrival", and_(eq(events._queue[0][0], ev.arrival), eq(events._queue[0][1].ev.arrival, ev.arrival)))
    # ---- oracle
    q = 60 * period
    fl = (lambda x: env._divmod_const(x, q)[0]) if cx.mode == "sym" else (lambda x: x // q)  # floor of the quotient, by definition x = q*k + r
    fs = fl(s_secs)
    A = fl(c_secs) - fs
    D = fl(d_secs) - fs
    stay = D - A
    if use_max_len:
        stay = sym_min(stay, max_len)
    dep = A + stay
    # "what the maximum battery power can deliver during the stay": the stay of the EV itself (equal to `stay` by the two
    # obligations above it)
    energy = sym_min(kwh, maxp * (ev.departure - ev.arrival) * (period / 60)) if force_feasible else kwh
    cx.check("arrival=floor(connect/period)-floor(start/period)", eq(ev.arrival, A))
    cx.check("departure=floor(disconnect/period)-floor(start/period),capped_at_max_len", eq(ev.departure, dep))
    cx.check("departure>=arrival", ge(ev.departure, ev.arrival))
    if use_max_len:
        cx.check("stay<=max_len", le(ev.departure - ev.arrival, max_len))
    cx.check("requested_energy", eq(ev.requested_energy, energy))
    cx.check("requested<=document_energy", le(ev.requested_energy, kwh))
    if force_feasible:
        cx.check("requested<=deliverable_at_max_power_during_the_stay", le(ev.requested_energy, maxp * (ev.departure - ev.arrival) * (period / 60)))
    cx.check("ids", ev.session_id == "sess-7" and ev.station_id == "CA-303")
    cx.check("estimated_departure_defaults_to_departure", eq(ev.estimated_departure, ev.departure))
    cap, init, cur, mp = _battery_state(ev._battery)
    cx.check("battery_max_power", eq(mp, maxp))
    cx.check("battery_starts_at_init", eq(cur, init))
    if battery_mode == "capacity_fn":
        cx.check("capacity_fn_called_once", len(calls_first) == 1)
        if len(calls_first) == 1 and len(calls_first[0]) == 4:
            a = calls_first[0]
            cx.check("capacity_fn_arguments", and_(eq(a[0], energy), eq(a[1], ev.departure - ev.arrival), eq(a[2], voltage), eq(a[3], period)))
        cx.check("battery_from_capacity_fn", and_(eq(cap, cap_s), eq(init, init_s)))
        cx.check("battery_type_and_kwargs", type(ev._battery) is B.Linear2StageBattery and ev._battery._transition_soc == 0.7 and ev._battery.charge_calculation == "stepwise")
    else:
        cx.check("free_capacity_covers_request", ge(cap - init, ev.requested_energy))
        cx.check("battery_type", type(ev._battery) is (B.Linear2StageBattery if battery_mode == "two_stage_default" else B.Battery))
    # tags decided by forking so that both modes agree
    if use_max_len and _decide(cx, gt(D - A, max_len)):
        cx.tag("doc:max_len_cut")
    if force_feasible and _decide(cx, lt(maxp * (ev.departure - ev.arrival) * (period / 60), kwh)):
        cx.tag("doc:force_feasible_cut")
    cx.observe("ev", [ev.arrival, ev.departure, ev.requested_energy])


def _decide(cx, prop):
    """concrete truth value of a property; forks in symbolic mode"""
    if cx.mode == "conc":
        return prop.weak() if not prop.symbolic() else None
    if not prop.symbolic():
        return prop.weak()
    return bool(core.SymBool(prop.z3()))


def h_matrix(cx, period, use_max_len, force_feasible, battery_mode, rows):
    import numpy as np
    import acnportal.acnsim.events.stochastic_events as SE
    import acnportal.acnsim.models.battery as B

    proxy = env.install(cx)
    cx.patch(SE, "np", proxy)
    cx.patch(SE, "int", core.sym_int, must_exist=False)
    M = np.empty((rows, 3), dtype=object if cx.mode == "sym" else float)
    vals = []
    for r in range(rows):
        a = cx.real("arrival_h%d" % r, lo=-1, hi=48)
        d = cx.real("duration_h%d" % r, lo=-1, hi=48)
        e = cx.real("energy%d" % r, lo=-1, hi=200)
        M[r, 0], M[r, 1], M[r, 2] = a, d, e
        vals.append((a, d, e))
    maxp = cx.real("max_battery_power", lo=0, lo_open=True, hi=100)
    max_len = cx.real("max_len", lo=0, hi=48) if use_max_len else None
    voltage = 208
    calls = []
    params = None
    if battery_mode == "capacity_fn":
        def cap_fn(energy, dur, V, T):
            calls.append((energy, dur, V, T))
            return energy * 2 + 1, energy + 1

        params = {"type": B.Battery, "capacity_fn": cap_fn}
    import io
    import contextlib

    with contextlib.redirect_stdout(io.StringIO()):
        evs = SE.StochasticEvents._convert_ev_matrix(M, period, voltage, maxp, max_len, params, force_feasible)
    pph = 60 / period
    k = 0
    for r, (a, d, e) in enumerate(vals):
        valid = _decide(cx, and_(ge(a, 0), gt(d, 0), gt(e, 0)))
        if valid is None:
            valid = (a >= 0 and d > 0 and e > 0)
        if not valid:
            cx.tag("matrix:invalid_skipped")
            cx.check("invalid_row_yields_no_ev", not any(ev.session_id == "session_%d" % r for ev in evs))
            continue
        cx.tag("matrix:valid")
        ok = k < len(evs) and evs[k].session_id == "session_%d" % r
        cx.check("valid_row_yields_its_ev_in_order", ok, note=str([ev.session_id for ev in evs]))
        if not ok:
            return
        ev = evs[k]
        k += 1
        dur = sym_min(d, max_len) if use_max_len else d
        energy = sym_min(e, maxp * dur) if force_feasible else e
        A = _floor(a * pph)
        D = _floor((a + dur) * pph)
        cx.check("arrival=floor(arrival_h*periods_per_hour)", eq(ev.arrival, A))
        cx.check("departure=floor((arrival_h+duration_h)*periods_per_hour)", eq(ev.departure, D))
        cx.check("departure>=arrival", ge(ev.departure, ev.arrival))
        if use_max_len:
            cx.check("stay_capped", le(ev.departure - ev.arrival, _ceil(max_len * pph)))
        cx.check("requested_energy", eq(ev.requested_energy, energy))
        if force_feasible:
            cx.check("requested<=max_power*duration", le(ev.requested_energy, maxp * dur))
        cx.check("station_and_session_ids", ev.station_id == "station_%d" % r)
        cap, init, cur, mp = _battery_state(ev._battery)
        cx.check("battery_max_power", eq(mp, maxp))
        if battery_mode == "capacity_fn":
            cx.check("battery_from_capacity_fn", and_(eq(cap, energy * 2 + 1), eq(init, energy + 1)))
            cx.check("free_capacity_covers_request", ge(cap - init, ev.requested_energy))
        else:
            cx.check("free_capacity_covers_request", ge(cap - init, ev.requested_energy))
    cx.check("no_extra_evs", len(evs) == k)
    cx.observe("evs", [[ev.arrival, ev.departure, ev.requested_energy] for ev in evs])


def _floor(x):
    return core.sym_floor(x) if is_sym(x) else math.floor(x + 1e-12) if False else math.floor(x)


def _ceil(x):
    return core.sym_ceil(x) if is_sym(x) else math.ceil(x)


def h_fit(cx, voltage, period, stay, sym_voltage):
    """closed-form branch of the fit: capacity covers the request and full-rate charging over the stay delivers exactly the request"""
    import acnportal.acnsim.models.battery as B
    from props import C14

    C14._install(cx)

    def cut(*a, **k):
        raise core.Abort("binary-search branch of batt_cap_fn: outside the claim")

    cx.patch(B, "abs", cut, sym_only=False, must_exist=False)
    max_rate = 32
    V = cx.real("voltage", lo=100, hi=500) if sym_voltage else voltage
    max_energy = max_rate * (voltage if not sym_voltage else 500) / 1000 * stay * period / 60
    req = cx.real("requested_energy", lo=0, lo_open=True, hi=100)
    try:
        # history: the same (energy, stay, period) was fitted before for a site with another voltage (an earlier simulation in the
        # same process); the fit that is judged is the second call
        try:
            B.batt_cap_fn(req, stay, V * 1.25 if sym_voltage else {208: 240, 240: 208, 120: 277}.get(voltage, voltage + 32), period)
        except ValueError:
            pass
        cap, init = B.batt_cap_fn(req, stay, V, period)
    except ValueError:
        cx.tag("fit:no_feasible_size")
        return
    cx.tag("fit:closed_form")
    cx.observe("cap", cap)
    cx.check("0<=init<=cap", and_(ge(init, 0), le(init, cap)))
    cx.check("free_capacity_covers_request", ge(cap - init, req - 1e-9))
    batt = B.Linear2StageBattery(cap, init, max_rate * V / 1000)
    cx.patch(B, "abs", core.sym_abs, sym_only=True, must_exist=False)
    total = 0
    for _ in range(stay):
        r = batt.charge(max_rate, V, period)
        total = total + r * V / 1000 * (period / 60)
    if cx.mode == "sym" and cx.exp_args:
        a0 = cx.exp_args[-1]
        for k in range(2, stay):
            core.sym_exp(core.SymReal(a0 * k))
        C14._strengthen_exp(cx)
    c_end = batt._to_dict()[0]["_current_charge"]
    band = 1e-9 * 200
    cx.check("full_rate_over_the_stay_delivers_the_request[battery]", and_(le(c_end - init - req, band), le(req - (c_end - init), band)))
    cx.check("full_rate_over_the_stay_delivers_the_request[rates]", and_(le(total - req, band), le(req - total, band)))
    cx.observe("delivered", total)


def h_fp_lemma(cx, d, width):
    """IEEE-754 counterpart of the exact-real model: for every integer 0 <= a < 2^width,  floor(fl(a) / fl(d)) == a div d  for the
    constant d = 60 * period - so int(ts / (60*period)) is the period index for whole-second timestamps.  Decided by cvc5 (QF_BVFP,
    the pre-installed binary); z3 needs > 4 min per divisor."""
    a = cx.int("a", 0, 2 ** width - 1)
    cx.observe("q", a // d)
    if cx.mode == "conc":
        cx.check("floor(fl(a/d))==a div d", int(float(a) / float(d)) == a // d)
        return
    import os
    import shutil
    import subprocess
    import tempfile
    import time as _t

    t0 = _t.time()
    smt = """(set-logic QF_BVFP)
(declare-const a (_ BitVec 64))
(assert (bvult a (_ bv%d 64)))
(define-fun fa () (_ FloatingPoint 11 53) ((_ to_fp 11 53) RNE a))
(define-fun fd () (_ FloatingPoint 11 53) ((_ to_fp 11 53) RNE (_ bv%d 64)))
(assert (not (= ((_ fp.to_sbv 64) RTZ (fp.div RNE fa fd)) (bvudiv a (_ bv%d 64)))))
(check-sat)
""" % (2 ** width, d, d)
    status, asg, detail = "unknown", None, None
    exe = shutil.which("cvc5")
    if exe is None:
        detail = "cvc5 binary not found"
    else:
        fd_, path = tempfile.mkstemp(suffix=".smt2")
        try:
            with os.fdopen(fd_, "w") as f:
                f.write(smt)
            r = subprocess.run([exe, "--produce-models", path], capture_output=True, text=True, timeout=900)
            out = r.stdout.strip().splitlines()
            detail = "cvc5: " + " ".join(out)[:120]
            if "(error" in r.stdout or "(error" in r.stderr:
                status = "unknown"
            elif out and out[0] == "unsat":
                status = "unsat"
            elif out and out[0] == "sat":
                import re as _re

                with open(path, "a") as f:
                    f.write("(get-value (a))\n")
                r = subprocess.run([exe, "--produce-models", path], capture_output=True, text=True, timeout=900)

                m = _re.search(r"#x([0-9a-fA-F]+)|#b([01]+)", r.stdout)
                if m:
                    asg = {"a": int(m.group(1), 16) if m.group(1) else int(m.group(2), 2)}
                    status = "sat"
        except subprocess.TimeoutExpired:
            detail = "cvc5 timed out after 900 s"
        finally:
            os.unlink(path)
    cx.obligations.append(core.Obligation("floor(fl(a/d))==a div d", status, asg, detail, _t.time() - t0))
    cx.nchecks += 1


def jobs(tier):
    import itertools

    q = tier == "quick"
    js = []
    combos = [(5, True, True, "default", -8), (1, False, True, "default", 5), (15, True, False, "capacity_fn", 0), (60, True, True, "two_stage_default", -7), (5, False, False, "capacity_fn", 9)] if q else \
        [(p, ml, ff, bm, tz) for p in (1, 5, 15, 60) for ml in (False, True) for ff in (False, True) for bm, tz in (("default", -8), ("capacity_fn", 5), ("two_stage_default", 0))]
    for p, ml, ff, bm, tz in combos:
        js.append(Job("doc[period=%d,max_len=%d,force_feasible=%d,%s]" % (p, ml, ff, bm), h_doc, dict(period=p, use_max_len=ml, force_feasible=ff, battery_mode=bm, tz_hours=tz), functions=FUNCS,
                      timeout=1200, bounds=dict(period=p, max_len="symbolic int" if ml else None, force_feasible=ff, battery=bm, instants="whole seconds in [0, 2e9]"), cost=5))
    mcombos = [(5, True, True, "default", 1), (60, False, True, "capacity_fn", 1), (15, True, False, "default", 2)] if q else \
        [(p, ml, ff, bm, 1) for p in (1, 5, 15, 60) for ml in (False, True) for ff in (False, True) for bm in ("default", "capacity_fn")] + [(5, True, True, "default", 2), (15, False, True, "capacity_fn", 2)]
    for p, ml, ff, bm, rows in mcombos:
        js.append(Job("matrix[period=%d,max_len=%d,force_feasible=%d,%s,rows=%d]" % (p, ml, ff, bm, rows), h_matrix, dict(period=p, use_max_len=ml, force_feasible=ff, battery_mode=bm, rows=rows),
                      functions=FUNCS, timeout=1200, bounds=dict(period=p, rows=rows, max_len="symbolic hours" if ml else None, force_feasible=ff, battery=bm), cost=5 * rows))
    fits = [(208, 5, 1, False), (240, 5, 2, False), (208, 15, 3, False), (208, 5, 1, True)] if q else \
        [(V, p, s, False) for V in (120, 208, 240) for p in (1, 5, 15, 60) for s in (1, 2, 3, 6, 12)] + [(208, 5, 1, True), (208, 5, 2, True), (208, 15, 1, True)]
    for V, p, s, sv in fits:
        js.append(Job("fit[V=%s,period=%d,stay=%d]" % ("sym" if sv else V, p, s), h_fit, dict(voltage=V, period=p, stay=s, sym_voltage=sv), functions=FUNCS, timeout=1800, approx=sv,
                      bounds=dict(voltage="symbolic in [100,500]" if sv else V, period=p, stay_periods=s, request="symbolic in (0,100] kWh", branch="closed form only"), cost=20 if sv else 3))
    if not q:
        for period in (1, 5, 15, 60):
            js.append(Job("fp_lemma[period=%d,a<2^32]" % period, h_fp_lemma, dict(d=60 * period, width=32), functions=["IEEE-754 double division vs integer division (lemma behind the exact-real model of int(ts/(60*period)))"],
                          timeout=1500, bounds=dict(a="< 2^32 (seconds since the epoch until 2106)", d=60 * period, solver="cvc5 binary, QF_BVFP"), cost=100))
    return js
