"""C09 - interrupted, serialised and resumed runs equal the uninterrupted run.

Two executions of the real Simulator on the SAME symbolic inputs (event times, pilots, battery parameters):
  A  uninterrupted;
  B  the scheduler raises in period c (c a symbolic integer ranging over every period of the run, first and last
     included), then either run() is simply called again, or the simulator is written with the public to_json(), read
     back with from_json(), given a scheduler again with update_scheduler() and run().
The obligations state that B's completed trajectory is valid-equal to A's, and that the loaded object shares EV objects
between station, session history, event history and pending events, and keeps the pending-event heap order.
"""
from symx import env, core
from symx.core import le, lt, ge, gt, eq, ne, and_, or_, implies, not_, iff, is_sym
from symx.run import Job
from props import simlib
from props.simlib import acn, make_network, Scripted, Boom, make_sim, sym_times, SIM_FUNCS, SIM_ASSUMPTIONS

FUNCS = SIM_FUNCS + [
    "acnportal.acnsim.base.BaseSimObj.to_json/from_json/_to_registry/_from_registry/_build_from_id",
    "acnportal.acnsim.simulator.Simulator._to_dict/_from_dict/update_scheduler",
    "acnportal.acnsim.events.event_queue.EventQueue._to_dict/_from_dict; Event/EVEvent/UnplugEvent._to_dict/_from_dict",
    "acnportal.acnsim.network.charging_network.ChargingNetwork._to_dict/_from_dict",
    "acnportal.acnsim.models.evse.*._to_dict/_from_dict; models.ev.EV._to_dict/_from_dict; models.battery.*._to_dict/_from_dict",
]
ASSUMPTIONS = SIM_ASSUMPTIONS + [
    "the interruption is an exception raised by the scheduling algorithm before it returns a schedule (the mechanism named by the property)",
    "json.dumps/json.loads inside acnportal.acnsim.base are modelled structurally (tuple->list, dict keys->str, ndarray->list, identity on numbers); concrete replays use the real json module",
    "start datetime concrete; its tzinfo/strftime round trip is outside the claim",
]


def _params(cx, n, battery):
    out = []
    for i in range(n):
        if battery == "huge":
            out.append((100000, 0, 100000))
            continue
        cap = cx.real("cap_%d" % i, lo=0, lo_open=True, hi=200)
        init = cx.real("init_%d" % i, lo=0)
        cx.assume(le(init, cap))
        maxp = cx.real("maxp_%d" % i, lo=0, lo_open=True, hi=50)
        out.append((cap, init, maxp))
    return out


def _battery(kind, p):
    A = acn()
    if kind in ("ideal", "huge"):
        return A.Battery(*p)
    return A.Linear2StageBattery(p[0], p[1], p[2], transition_soc=0.8, charge_calculation=kind)


def _build(cx, stations, station_of, times, bparams, battery, table, mr, L, rec_at, hist, crash_at=None, constraint=None):
    A = acn()
    net = make_network(cx, stations, constraint)
    evs = [A.EV(a, d, 50000, stations[station_of[i]][0], "sess%d" % i, _battery(battery, bparams[i])) for i, (a, d) in enumerate(times)]
    sc = Scripted(cx, stations, max_recompute=mr, length=L, table=table, crash_at=crash_at)
    sim = make_sim(cx, net, sc.algo, evs, recompute_at=rec_at, store_history=hist)
    return sim, sc


def _summary(sim):
    n = sim.iteration
    return dict(n=n, pilots=sim.pilot_signals[:, :n], rates=sim.charging_rates[:, :n], peak=sim.peak,
                energies={sid: ev.energy_delivered for sid, ev in sim.ev_history.items()},
                charges={sid: ev._battery._to_dict()[0]["_current_charge"] for sid, ev in sim.ev_history.items()},
                events=[(e.event_type, e.timestamp, getattr(e, "session_id", None) if e.event_type != "Recompute" else None) for e in sim.event_history],
                hist=sim.schedule_history)


def _cmp_matrix(cx, label, a, b):
    if a.shape != b.shape:
        cx.check(label + ":shape", False, note="%s vs %s" % (a.shape, b.shape))
        return
    for r in range(a.shape[0]):
        for t in range(a.shape[1]):
            cx.check(label, eq(a[r, t], b[r, t]))


def h_resume(cx, stations, station_of, H, battery, mode, mr, L, rec, hist, crash, constraint=None):
    env.install(cx)
    env.install_json(cx)
    A = acn()
    times = sym_times(cx, len(station_of), H, station_of)
    bparams = _params(cx, len(station_of), battery)
    rec_at = [cx.int("rec0", 0, H)] if rec else []
    table = {}
    # ---- run A: uninterrupted
    simA, _ = _build(cx, stations, station_of, times, bparams, battery, table, mr, L, rec_at, hist, constraint=constraint)
    simA.run()
    sa = _summary(simA)
    # ---- run B: interrupted at c
    c = cx.int("crash_period", crash, crash)
    simB, scB = _build(cx, stations, station_of, times, bparams, battery, table, mr, L, rec_at, hist, crash_at=c, constraint=constraint)
    crashed = False
    try:
        simB.run()
    except Boom:
        crashed = True
    if not crashed:
        cx.tag("scheduler_not_invoked_in_period_c")
        cx.observe("n", simB.iteration)
        return
    cx.tag("crashed")
    tc = simB.iteration
    if tc == 0:
        cx.tag("crash_in_first_period")
    if simB.event_queue.empty():
        cx.tag("crash_with_empty_queue(last period)")
    else:
        cx.tag("crash_with_pending_events")
    cx.check("crash:iteration_not_advanced", eq(tc, c))
    if mode == "plain":
        simB.run()
        simR = simB
    else:
        pending_before = [(ts, e.event_type, getattr(e, "session_id", None) if e.event_type != "Recompute" else None) for ts, e in simB.event_queue.queue]
        import warnings

        with warnings.catch_warnings():
            warnings.simplefilter("ignore")
            if mode == "json_path":
                # the file-path form of to_json / from_json
                import os
                import tempfile

                fd, path = tempfile.mkstemp(suffix=".json", prefix="symx_c09_")
                os.close(fd)
                try:
                    simB.to_json(path)
                    simR = A.Simulator.from_json(path)
                finally:
                    os.unlink(path)
            elif mode == "json_buffer":
                import io

                buf = io.StringIO()
                simB.to_json(buf)
                buf.seek(0)
                simR = A.Simulator.from_json(buf)
            else:
                doc = simB.to_json()
                simR = A.Simulator.from_json(doc)
        cx.check("load:is_new_object", simR is not simB and simR.network is not simB.network)
        # sharing
        for sid in simR.network.station_ids:
            ev = simR.network.get_ev(sid)
            orig = simB.network.get_ev(sid)
            cx.check("load:occupancy", (ev is None) == (orig is None))
            if ev is not None and orig is not None:
                cx.check("load:station_ev_is_history_ev", ev is simR.ev_history.get(ev.session_id) and ev.session_id == orig.session_id)
                cx.tag("shared_station_ev")
        pending_after = [(ts, e.event_type, getattr(e, "session_id", None) if e.event_type != "Recompute" else None) for ts, e in simR.event_queue.queue]
        cx.check("load:pending_heap_order_kept", len(pending_before) == len(pending_after) and all(
            x[1:] == y[1:] and bool(core.as_prop(eq(x[0], y[0])).weak() if cx.mode == "conc" else _valid_eq(cx, x[0], y[0])) for x, y in zip(pending_before, pending_after)))
        for ts, e in simR.event_queue.queue:
            if e.event_type != "Recompute":
                cx.check("load:pending_event_ev_is_shared", e.ev is simR.ev_history.get(e.ev.session_id) or (e.event_type == "Plugin" and e.ev.session_id not in simR.ev_history))
                cx.check("load:event_timestamp", eq(e.timestamp, ts))
                if e.event_type == "Unplug":
                    cx.tag("shared_pending_unplug")
        for e in simR.event_history:
            if e.event_type != "Recompute":
                cx.check("load:past_event_ev_is_shared", e.ev is simR.ev_history.get(e.ev.session_id))
        cx.check("load:scalars", and_(eq(simR.iteration, simB.iteration), eq(simR.peak, simB.peak), simR.period == simB.period, simR.max_recompute == simB.max_recompute,
                                      simR._resolve == simB._resolve, simR.start == simB.start))
        _cmp_matrix(cx, "load:pilot_signals", simR.pilot_signals, simB.pilot_signals)
        _cmp_matrix(cx, "load:charging_rates", simR.charging_rates, simB.charging_rates)
        sc2 = Scripted(cx, stations, max_recompute=mr, length=L, table=table)
        simR.update_scheduler(sc2.algo)
        simR.run()
    sr = _summary(simR)
    cx.tag("resumed")
    cx.observe("n", [sa["n"], sr["n"]])
    cx.observe("rates", sr["rates"])
    cx.check("resume:iteration", eq(sr["n"], sa["n"]))
    if sr["n"] == sa["n"]:
        _cmp_matrix(cx, "resume:pilot_signals", sr["pilots"], sa["pilots"])
        _cmp_matrix(cx, "resume:charging_rates", sr["rates"], sa["rates"])
    cx.check("resume:peak", eq(sr["peak"], sa["peak"]))
    cx.check("resume:sessions", sorted(sr["energies"]) == sorted(sa["energies"]))
    for sid in sa["energies"]:
        if sid in sr["energies"]:
            cx.check("resume:energy_delivered", eq(sr["energies"][sid], sa["energies"][sid]))
            cx.check("resume:battery_charge", eq(sr["charges"][sid], sa["charges"][sid]))
    cx.check("resume:event_history_length", len(sr["events"]) == len(sa["events"]))
    for x, y in zip(sr["events"], sa["events"]):
        cx.check("resume:event_history", and_(x[0] == y[0], x[2] == y[2], eq(x[1], y[1])))
    cx.check("resume:queue_empty_and_stations_vacant", simR.event_queue.empty() and all(simR.network.get_ev(s) is None for s in simR.network.station_ids))
    if hist:
        ha, hr = sa["hist"], sr["hist"]
        cx.check("resume:schedule_history_keys", ha is not None and hr is not None and sorted(ha) == sorted(hr))
        if ha is not None and hr is not None:
            for k in ha:
                if k in hr:
                    cx.check("resume:schedule_history_entry", sorted(ha[k]) == sorted(hr[k]) and all(len(ha[k][s]) == len(hr[k][s]) for s in ha[k]))
                    for s in ha[k]:
                        for u, v in zip(ha[k][s], hr[k].get(s, [])):
                            cx.check("resume:schedule_history_value", eq(u, v))


def _valid_eq(cx, a, b):
    if not (is_sym(a) or is_sym(b)):
        return a == b
    import z3

    return cx._check(z3.Not(eq(a, b).z3())) == z3.unsat


def jobs(tier):
    q = tier == "quick"
    # station ids are deliberately NOT registered in alphabetical order, and stations are not interchangeable
    S2 = [("PS-B", "EVSE", 208, 0), ("PS-A", "DEADBAND", 240, 0)]
    S2c = [("st2", "CC", 208, 0), ("st10", "EVSE", 120, 0)]
    S3 = [("C", "EVSE", 208, 0), ("A", "CC", 120, 0), ("B", "DEADBAND", 240, 0)]
    cfgs = []
    if q:
        for mode in ("plain", "json"):
            cfgs.append((S2, (0, 1), 3, "ideal", mode, 1, 1, False, mode == "json", None))
            cfgs.append((S2c, (0, 0), 3, "stepwise", mode, None, 2, True, False, None))
        cfgs.append((S2c, (0, 1), 2, "ideal", "json_path", 1, 1, False, False, None))
        cfgs.append((S2c, (0, 1), 2, "ideal", "json_buffer", 1, 1, False, False, None))
    else:
        for mode in ("plain", "json"):
            cfgs.append((S2, (0, 1), 4, "ideal", mode, 1, 1, False, True, None))
            cfgs.append((S2c, (0, 0), 4, "stepwise", mode, None, 2, True, False, None))
            cfgs.append((S2, (0, 1), 3, "ideal", mode, 2, 3, True, True, ((1, 1), 40)))
            cfgs.append((S3, (0, 1, 2), 3, "stepwise", mode, 1, 1, False, False, None))
            cfgs.append((S3, (0, 0, 1), 4, "ideal", mode, 1, 2, False, True, None))
            cfgs.append((S2, (0, 1), 3, "continuous", mode, 1, 1, False, False, None))
        for mode in ("json_path", "json_buffer"):
            cfgs.append((S2c, (0, 1), 3, "ideal", mode, 1, 1, False, True, None))
            cfgs.append((S3, (0, 1, 2), 3, "stepwise", mode, None, 2, True, False, None))
    js = []
    for st, so, H, bat, mode, mr, L, rec, hist, cons in cfgs:
      for crash in range(H + 1):
        name = "resume[%s,crash@%d,n=%d,sess=%s,H=%d,%s,mr=%s,L=%d,rec=%d,hist=%d,cons=%d]" % (mode, crash, len(st), "".join(map(str, so)), H, bat, mr, L, rec, hist, cons is not None)
        js.append(Job(name, h_resume, dict(stations=st, station_of=so, H=H, battery=bat, mode=mode, mr=mr, L=L, rec=rec, hist=hist, crash=crash, constraint=cons), functions=FUNCS,
                      expect_tags=(),
                      max_paths=100000, timeout=6000, approx=(bat == "continuous"),
                      bounds=dict(stations=len(st), sessions=len(so), horizon=H, battery=bat, evse=[s[1] for s in st], crash_period=crash, mode=mode, max_recompute=mr,
                                  schedule_length=L, pending_recompute_event=rec, schedule_history=hist, constraint=cons is not None),
                      cost=(10 ** len(so)) * H * H * (2 if mode.startswith("json") else 1)))
    return js


EXPECT_GLOBAL_TAGS = ("crashed", "resumed", "crash_with_pending_events", "shared_station_ev", "shared_pending_unplug", "crash_in_first_period", "crash_with_empty_queue(last period)", "scheduler_not_invoked_in_period_c")
