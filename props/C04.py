"""C04 - applied pilots are exactly what the submitted schedules say.

The real Simulator.run/_update_schedules/_increase_width and ChargingNetwork.update_pilots run on schedules whose every
entry is a symbolic real; the shape of each submitted schedule (empty / subset / all stations, length 1..3, insertion
order, longer than the remaining horizon) is chosen by forking at every invocation. The oracle is a reference overlay
built from the statement, independent of the code.
"""
import warnings

from symx import env
from symx.core import le, lt, ge, gt, eq, ne, and_, or_, implies, not_, iff, is_sym
from symx.run import Job
from props import simlib
from props.simlib import make_network, make_battery, make_sim, Snap, acn, allowed_pilot

ASSUMPTIONS = simlib.SIM_ASSUMPTIONS + [
    "timeline fixed per job (sessions A:[0,2) B:[1,3) or A:[0,1) A:[1,3)); schedule shapes forked per invocation from a menu of 6 (quick) / 9 (thorough) shapes",
]

FUNCS = simlib.SIM_FUNCS

# (stations in insertion order, length)
MENU_Q = [((), 0), (("A",), 1), (("A", "B"), 1), (("B", "A"), 2), (("B",), 3), (("A", "B"), 3)]
MENU_T = MENU_Q + [(("B", "A"), 1), (("A",), 2), (("B", "A"), 3)]


def flatten(o, path="", out=None):
    import numpy as np

    if out is None:
        out = []
    if isinstance(o, dict):
        for k in o:
            flatten(o[k], path + "/" + str(k), out)
    elif isinstance(o, (list, tuple)):
        for i, v in enumerate(o):
            flatten(v, path + "/%d" % i, out)
    elif isinstance(o, np.ndarray):
        flatten(o.tolist(), path, out)
    else:
        out.append((path, o))
    return out


def same_state(cx, label, before, after):
    ok = len(before) == len(after) and all(a[0] == b[0] for a, b in zip(before, after))
    cx.check(label + ":shape", ok)
    if not ok:
        return
    conj = []
    for (p, x), (_, y) in zip(before, after):
        if isinstance(x, (str, type(None), bool)) or isinstance(y, (str, type(None), bool)):
            if x != y:
                cx.check(label + ":leaf", False, note="%s: %r -> %r" % (p, x, y))
        else:
            conj.append(eq(x, y))
    cx.check(label + ":leaves", and_(*conj), note="%d numeric leaves of the registry dump" % len(conj))


def h_overlay(cx, timeline, mr, limit_kind, menu, malformed, band=False, history=False, int_first=False):
    env.install(cx)
    A = acn()
    from acnportal.algorithms import BaseAlgorithm
    from acnportal.acnsim.interface import InvalidScheduleError

    stations = [("A", "EVSE", 208, 0), ("B", "EVSE", 240, 0)]
    snap = Snap()
    sim_ref = [None]
    cons = None
    if limit_kind == "sym":
        cons = ([1, 1], cx.real("limit", lo=0, hi=80))
    net = make_network(cx, stations, cons, snap, sim_ref)
    evs = []
    for i, (st, a, d) in enumerate(timeline):
        b, _, _, _ = make_battery(cx, "s%d" % i, "huge")
        evs.append(A.EV(a, d, 50000, st, "sess%d" % i, b))
    submitted = []
    pilots_seen = []
    state_before = {}
    bad_t = cx.choice("bad_t", [0, 1, 2, 3]) if malformed else None

    class Algo(BaseAlgorithm):
        def __init__(self):
            super().__init__()
            self.max_recompute = mr

        def schedule(self, active_sessions):
            sim = self.interface._simulator
            t = self.interface.current_time
            # what the EVSEs were told in the previous period
            pilots_seen.append((t, {s: sim.network._EVSEs[s].current_pilot for s in sim.network.station_ids}))
            ids, L = cx.choice("shape_t%d" % t, menu)
            sched = {}
            for s in ids:
                if int_first and s == ids[0] and len(ids) > 1:
                    # the first entry of the mapping is a row of plain Python ints, later rows are (symbolic) floats: int / float /
                    # numpy values may be mixed freely in one schedule
                    sched[s] = [8 + k for k in range(L)]
                    continue
                # band: values inside the EVSEs' 1e-3 A acceptance band just outside [0, 32] (solver round-off) are accepted
                # by the EVSE, hence applied and recorded as given
                sched[s] = [cx.real("x_%s_%d_%d" % (s, t, k), lo=(-0.0009 if band else 0), hi=(32.0009 if band else 32)) for k in range(L)]
            # some entries are plain ints / numpy floats, as schedulers return them in practice
            if malformed and t == bad_t:
                state_before["t"] = t
                state_before["dump"] = flatten(sim._to_registry()[0]["context_dict"])
                if malformed == "unknown_station":
                    sched["Z"] = [1.0] * max(L, 1)
                elif malformed == "unequal_one":
                    # a long first row and a row of length exactly 1 (what array broadcasting would silently stretch)
                    sched["A"] = [1.0] * (L + 2)
                    sched["B"] = [2.0]
                else:
                    sched["A"] = [1.0] * (L + 1)
                    sched["B"] = [2.0] * (L + 2)
                return sched
            submitted.append((t, sched, L))
            return sched

    sim = make_sim(cx, net, Algo(), evs, store_history=history)
    sim_ref[0] = sim
    raised = None
    with warnings.catch_warnings(record=True) as w:
        warnings.simplefilter("always")
        try:
            sim.run()
        except KeyError as e:
            raised = "KeyError"
        except InvalidScheduleError as e:
            raised = "InvalidScheduleError"
    warned = [x for x in w if "Invalid schedule" in str(x.message)]
    if warned:
        cx.tag("infeasible_schedule_only_warned")
    if malformed:
        if "t" not in state_before:
            cx.tag("malformed_never_submitted")
            return
        cx.tag("malformed_submitted")
        cx.check("malformed_schedule_raises", raised == ("KeyError" if malformed == "unknown_station" else "InvalidScheduleError"))
        after = flatten(sim._to_registry()[0]["context_dict"])
        same_state(cx, "state_unchanged_by_rejected_schedule", state_before["dump"], after)
        return
    cx.check("no_exception", raised is None)
    cx.tag("terminated")
    n = sim.iteration
    width = sim.pilot_signals.shape[1]
    # reference overlay from the statement
    ref = {}
    for t, sched, L in submitted:
        if len(sched) == 0:
            cx.tag("empty_schedule")
            continue
        if t + L > 4:
            cx.tag("schedule_beyond_horizon")
        if t == n - 1 and L > 1:
            cx.tag("long_schedule_in_last_period")
        for k in range(L):
            for r, s in enumerate(stations):
                ref[(r, t + k)] = sched[s[0]][k] if s[0] in sched else 0
    maxc = max([width] + [c + 1 for (_, c) in ref])
    for c in range(maxc):
        for r in range(len(stations)):
            want = ref.get((r, c), 0)
            if c < width:
                cx.check("pilot_signals=overlay", eq(sim.pilot_signals[r, c], want))
            else:
                cx.check("uncovered_tail_is_zero_in_overlay", eq(want, 0) if c >= n else False)
    # applied to the EVSEs: snapshot after update_pilots, and what the scheduler sees next period
    for r in snap.rows:
        pass
    for t, seen in pilots_seen:
        if t == 0:
            continue
        for ri, s in enumerate(stations):
            connected_prev = any(st == s[0] and a <= t - 1 < d for st, a, d in timeline)
            still = any(st == s[0] and a <= t - 1 and t < d for st, a, d in timeline)
            if still:
                cx.check("evse_pilot_next_period=overlay", eq(seen[s[0]], ref.get((ri, t - 1), 0)))
    cx.observe("pilots", sim.pilot_signals[:, :n])
    cx.observe("iteration", n)


def jobs(tier):
    T1 = (("A", 0, 2), ("B", 1, 3))
    T2 = (("A", 0, 1), ("A", 1, 3))
    js = []
    if tier == "quick":
        M3 = [(("A",), 1), (("B", "A"), 2), (("A", "B"), 3)]
        M2 = [(("A", "B"), 1), (("B", "A"), 2)]
        cfgs = [(T1, 1, None, MENU_Q[:5], None), (T2, None, "sym", M2, None), (T1, 2, None, M3, None),
                (T1, 1, None, M3, "unknown_station"), (T2, 1, None, M3, "unequal"), (T1, 1, None, M2, None, True), (T1, 1, None, M3, "unequal_one"),
                (T2, 2, None, [(("A", "B"), 3), (("A",), 2)], None, False, True), (T1, 1, None, [(("A", "B"), 1), (("B", "A"), 2)], None, False, False, True)]
    else:
        M3 = [(("A",), 1), (("B", "A"), 2), (("A", "B"), 3)]
        cfgs = [(T1, 1, None, MENU_T, None), (T2, 1, None, MENU_T, None), (T2, None, "sym", M3, None), (T1, 2, "sym", [(("A", "B"), 1), (("B", "A"), 2)], None), (T1, 3, None, MENU_T, None),
                (T1, 1, None, MENU_Q, "unknown_station"), (T2, 1, None, MENU_Q, "unequal"), (T2, None, None, M3, "unequal"),
                (T1, 1, None, MENU_Q, None, True), (T2, 2, None, M3, None, True), (T2, 1, None, M3, "unequal_one"), (T1, None, None, M3, "unequal_one"),
                (T1, 1, None, MENU_Q, None, False, True), (T2, 2, "sym", M3, None, False, True), (T1, 1, None, MENU_Q, None, False, False, True), (T2, None, None, M3, None, False, False, True)]
    for cfg in cfgs:
        tl, mr, lim, menu, mal = cfg[:5]
        band = len(cfg) > 5 and cfg[5]
        hist = len(cfg) > 6 and cfg[6]
        intf = len(cfg) > 7 and cfg[7]
        name = "overlay[tl=%s,mr=%s,limit=%s,menu=%d,malformed=%s%s%s%s]" % ("".join("%s%d%d" % x for x in tl), mr, lim, len(menu), mal, ",band" if band else "", ",schedule_history" if hist else "", ",int_row_first" if intf else "")
        tags = ("malformed_submitted",) if mal else ("terminated", "schedule_beyond_horizon") + (("long_schedule_in_last_period",) if max(m[1] for m in menu) > 1 else ()) + (("empty_schedule",) if menu[0][1] == 0 else ()) + (("infeasible_schedule_only_warned",) if lim else ())
        js.append(Job(name, h_overlay, dict(timeline=tl, mr=mr, limit_kind=lim, menu=menu, malformed=mal, band=band, history=hist, int_first=intf), functions=FUNCS, expect_tags=tags,
                      max_paths=200000, timeout=3000,
                      bounds=dict(stations=2, periods=4, invocations="<=4", shapes_per_invocation=len(menu), lengths="1..3", max_recompute=mr, constraint=lim, pilot_values=("[-0.0009, 32.0009]" if band else "[0, 32]"), store_schedule_history=bool(hist)),
                      cost=len(menu) ** (4 if mr == 1 else 3) * (2 if lim else 1)))
    return js
