"""C18 - analysis functions equal their first-principles definitions.

A real Simulator over a real ChargingNetwork (heterogeneous voltages, concrete phase angles, symbolic mixed-sign constraint
coefficients, non-alphabetical constraint names registered in non-sorted order) is put into the state of a completed run:
a symbolic charging-rate matrix (one column per simulated period) and an ev_history of real EVs whose delivered energy was
produced by real EV.charge calls with symbolic pilots.  Every function of acnportal.acnsim.analysis is then executed on it
and compared with its definition written by the harness from the statement.
"""
import itertools
import math
import warnings

from symx import env, core
from symx.core import le, lt, ge, gt, eq, ne, and_, or_, implies, not_, iff, ite, is_sym, sym_max, SymComplex, SymNorm
from symx.run import Job
from props.simlib import acn, START

FUNCS = [
    "acnportal.acnsim.analysis.aggregate_current/aggregate_power/constraint_currents/proportion_of_energy_delivered/total_energy_delivered/total_energy_requested/proportion_of_demands_met/current_unbalance/_nema_current_unbalance/datetimes_array",
    "acnportal.acnsim.network.charging_network.ChargingNetwork.constraint_current",
    "acnportal.acnsim.models.ev.EV.charge/remaining_demand",
]
ASSUMPTIONS = [
    "Python floats modelled as exact reals; trigonometric constants of the concrete phase angles are the doubles numpy computes, compared with a 1e-9 relative band",
    "state of a completed run constructed directly: charging_rates has exactly one column per simulated period; ev_history holds real EVs charged through EV.charge",
    "which of magnitude / complex value the return_magnitudes flag selects is NOT judged (code and docstring disagree, callers rely on the code): a real entry must equal the magnitude, a complex entry the phasor sum",
    "NEMA unbalance: magnitudes enter through fresh variables m >= 0, m^2 = re^2 + im^2 (nonlinear real arithmetic); periods where all three phase currents vanish are excluded (0/0)",
    "datetimes_array: datetime / timedelta / np.datetime64 modelled by the calendar model of C17 (naive instants, whole minutes)",
]
EXPECT_GLOBAL_TAGS = ("agg", "cc:subset", "cc:reordered", "cc:after_update", "agg:after_partial_look", "energy", "nema", "datetimes")
BAND = 1e-9 * 5000


class _Alg:
    max_recompute = 1

    def register_interface(self, i):
        self.interface = i


def build(cx, angles, voltages, rows, T, names, start=START, period=5, sym_coeff=True):
    import numpy as np

    A = acn()
    n = len(angles)
    ids = ["Z-%d" % (n - j) for j in range(n)]  # not in sorted order
    net = A.ChargingNetwork()
    for j in range(n):
        net.register_evse(A.EVSE(ids[j], max_rate=100), voltages[j], angles[j])
    coeffs = []
    for i, row in enumerate(rows):
        if i == 1:
            # the network has a history: a constraint that was added here and is removed again below
            net.add_constraint(A.Current({ids[0]: 1}), 7, name="Temporary")
        c = {}
        for j, v in enumerate(row):
            if v is None:
                continue
            c[ids[j]] = cx.real("a%d_%d" % (i, j), lo=-2, hi=2) if (sym_coeff and v == "s") else v
        coeffs.append(c)
        net.add_constraint(A.Current(c), 100, name=names[i])
    if len(rows) > 1:
        net.remove_constraint("Temporary")
    sim = A.Simulator(net, _Alg(), A.EventQueue(), start, period=period, verbose=False)
    R = [[cx.real("r%d_%d" % (j, t), lo=0, hi=100) for t in range(T)] for j in range(n)]
    M = np.empty((n, T), dtype=object if cx.mode == "sym" else float)
    for j in range(n):
        for t in range(T):
            M[j, t] = R[j][t]
    sim.charging_rates = M
    sim.pilot_signals = M.copy()
    sim._iteration = T
    return sim, net, ids, coeffs, R


def close_(a, b, band=BAND):
    return and_(le(a - b, band), le(b - a, band))


def phasor(coeffs_i, ids, angles, R, t):
    re = sum(coeffs_i.get(ids[j], 0) * R[j][t] * math.cos(math.radians(angles[j])) for j in range(len(ids)))
    im = sum(coeffs_i.get(ids[j], 0) * R[j][t] * math.sin(math.radians(angles[j])) for j in range(len(ids)))
    return re, im


def check_entry(cx, label, v, re, im):
    """v is either the phasor (complex) or its magnitude (real)"""
    if isinstance(v, (SymComplex, complex)) or (hasattr(v, "imag") and not is_sym(v) and isinstance(v, complex)):
        cx.check(label + ":complex", and_(close_(v.real, re), close_(v.imag, im)))
        return
    if isinstance(v, SymNorm):
        sq = v.sq
        cx.check(label + ":magnitude", close_(sq, re * re + im * im, BAND * 400))
        return
    # plain real (single-phase: |x| stays linear) or concrete float
    cx.check(label + ":magnitude", and_(ge(v, 0), close_(v * v, re * re + im * im, BAND * 400)))


def h_aggregate(cx, angles, voltages, T, partial_first=False):
    env.install(cx)
    import acnportal.acnsim.analysis as AN

    sim, net, ids, coeffs, R = build(cx, angles, voltages, [], T, [])
    n = len(ids)
    if partial_first and T > 1:
        # history: the analysis functions were already called on this simulator when only its first period had been simulated (an
        # interrupted run: the matrices have their full pre-allocated width, later columns still 0); then the run was completed
        saved = sim.charging_rates[:, 1:].copy()
        sim.charging_rates[:, 1:] = 0
        sim._iteration = 1
        AN.aggregate_current(sim), AN.aggregate_power(sim), AN.total_energy_delivered(sim)
        sim.charging_rates[:, 1:] = saved
        sim._iteration = T
        cx.tag("agg:after_partial_look")
    ac = AN.aggregate_current(sim)
    ap = AN.aggregate_power(sim)
    cx.check("aggregate_current_length", len(ac) == T)
    cx.check("aggregate_power_length", len(ap) == T)
    for t in range(T):
        cx.check("aggregate_current=sum_of_stations", close_(ac[t], sum(R[j][t] for j in range(n))))
        cx.check("aggregate_power=sum(V*I)/1000", close_(ap[t], sum(voltages[j] * R[j][t] for j in range(n)) / 1000))
    cx.tag("agg")
    cx.observe("ac", ac)
    cx.observe("ap", ap)


def h_constraint_currents(cx, angles, voltages, rows, T, names, request, flag, update=None):
    env.install(cx)
    import acnportal.acnsim.analysis as AN

    sim, net, ids, coeffs, R = build(cx, angles, voltages, rows, T, names)
    req = None if request is None else [names[k] for k in request]
    out = AN.constraint_currents(sim, return_magnitudes=flag, constraint_ids=req)
    if isinstance(update, tuple) and update[0] == "remove":
        # history: the query above, then a constraint is removed (rows after it move up), then the same simulator is analysed again
        r = update[1]
        net.remove_constraint(names[r])
        coeffs = [c for i, c in enumerate(coeffs) if i != r]
        names = [n_ for i, n_ in enumerate(names) if i != r]
        req = None if req is None else [n_ for n_ in req if n_ in names]
        cx.tag("cc:after_update")
        out = AN.constraint_currents(sim, return_magnitudes=flag, constraint_ids=req)
    elif update is not None:
        # history: the query above, then one constraint is updated through the public update_constraint() (which re-appends
        # it, so every later row moves up), then the SAME simulator is analysed again - judged on the second answer
        A = acn()
        c_new = {ids[j]: cx.real("u_%d" % j, lo=-2, hi=2) for j in range(len(ids)) if j != update % len(ids)}
        net.update_constraint(names[update], A.Current(c_new), 55)
        coeffs = list(coeffs)
        coeffs[update] = c_new
        cx.tag("cc:after_update")
        out = AN.constraint_currents(sim, return_magnitudes=flag, constraint_ids=req)
    want = list(names) if req is None else list(req)
    cx.check("keys_are_the_requested_constraints", sorted(out.keys()) == sorted(set(want)), note="%s vs %s" % (sorted(out.keys()), sorted(want)))
    if req is not None:
        cx.tag("cc:subset")
        if [n_ for n_ in names if n_ in req] != req:
            cx.tag("cc:reordered")
    for name in want:
        if name not in out:
            continue
        i = names.index(name)
        row = out[name]
        cx.check("row_length", len(row) == T)
        for t in range(min(T, len(row))):
            re, im = phasor(coeffs[i], ids, angles, R, t)
            check_entry(cx, "current[%s]" % name, row[t], re, im)
    cx.observe("n", len(out))


def make_history(cx, sim, n_ev, voltages):
    A = acn()
    hist = {}
    req, dele = [], []
    for k in range(n_ev):
        r = cx.real("req%d" % k, lo=0, lo_open=True, hi=100)
        ev = A.EV(0, 5, r, "Z-1", "sess-%d" % k, A.Battery(100000, 0, 100000))
        p = cx.real("pilot%d" % k, lo=0, hi=100)
        ev.charge(p, voltages[k % len(voltages)], 60)
        hist[ev.session_id] = ev
        req.append(r)
        dele.append(p * voltages[k % len(voltages)] / 1000)
    sim.ev_history = hist
    return req, dele


def h_energy(cx, n_ev):
    env.install(cx)
    import acnportal.acnsim.analysis as AN

    V = (208, 240, 120)
    sim, net, ids, coeffs, R = build(cx, (0, 0), V[:2], [], 1, [])
    req, dele = make_history(cx, sim, n_ev, V)
    thr = cx.real("threshold", lo=-1, hi=10)
    cx.check("total_energy_delivered", close_(AN.total_energy_delivered(sim), sum(dele)))
    cx.check("total_energy_requested", close_(AN.total_energy_requested(sim), sum(req)))
    ped = AN.proportion_of_energy_delivered(sim)
    cx.check("proportion_of_energy_delivered", close_(ped * sum(req), sum(dele)))
    pdm = AN.proportion_of_demands_met(sim, threshold=thr)
    cnt = sum(ite(lt(req[k] - dele[k], thr), 1, 0) for k in range(n_ev))
    cx.check("proportion_of_demands_met", close_(pdm * n_ev, cnt))
    pdm0 = AN.proportion_of_demands_met(sim)
    cnt0 = sum(ite(lt(req[k] - dele[k], 0.1), 1, 0) for k in range(n_ev))
    cx.check("proportion_of_demands_met_default_threshold", close_(pdm0 * n_ev, cnt0))
    cx.tag("energy")
    cx.observe("ped", ped)
    cx.observe("pdm", [pdm, pdm0])


def h_nema(cx, angles, voltages, rows, T, names, order):
    env.install(cx)
    import acnportal.acnsim.analysis as AN
    import z3

    sim, net, ids, coeffs, R = build(cx, angles, voltages, rows, T, names, sym_coeff=False)
    phase_ids = [names[k] for k in order]
    # magnitudes by definition
    mags = []
    for name in phase_ids:
        i = names.index(name)
        mt = []
        for t in range(T):
            re, im = phasor(coeffs[i], ids, angles, R, t)
            if cx.mode == "conc":
                mt.append(math.hypot(re, im))
            elif not is_sym(im):
                mt.append(core.sym_abs(re))
            else:
                m = cx.real("m_%s_%d" % (name, t)) if False else core.SymReal(z3.Real(cx.fresh_name("mag")))
                cx.solver.add(m.e >= 0, m.e * m.e == core.toz3(re * re + im * im))
                mt.append(m)
        mags.append(mt)
    for t in range(T):
        cx.assume(gt(mags[0][t] + mags[1][t] + mags[2][t], 0.5))
    try:
        u = AN.current_unbalance(sim, phase_ids)
    except Exception:
        raise
    cx.check("unbalance_length", len(u) == T)
    for t in range(min(T, len(u))):
        mean = (mags[0][t] + mags[1][t] + mags[2][t]) / 3
        mx = sym_max(mags[0][t], mags[1][t], mags[2][t])
        # u = (max - mean) / mean   <=>  u * mean = max - mean
        cx.check("nema=(max-mean)/mean", close_(u[t] * mean, mx - mean, BAND * 10))
    with warnings.catch_warnings(record=True) as w:
        warnings.simplefilter("always")
        u2 = AN.current_unbalance(sim, phase_ids, type="NEMA")
        cx.check("deprecated_kwarg_warns", any(issubclass(x.category, DeprecationWarning) for x in w))
    try:
        AN.current_unbalance(sim, phase_ids, unbalance_type="IEC")
        cx.check("unknown_type_raises", False)
    except ValueError:
        cx.check("unknown_type_raises", True)
    cx.tag("nema")
    cx.observe("u", list(u))


class _DT64Proxy:
    """np as seen by analysis in the datetimes harness: datetime64 keeps the symbolic instant"""

    def __init__(self, base):
        self._b = base

    def __getattr__(self, k):
        return getattr(self._b, k)

    def datetime64(self, x, *a):
        if isinstance(x, env.SymDateTime):
            return x
        import numpy as np

        return np.datetime64(x, *a)

    def array(self, x, *a, **k):
        import numpy as np

        if x and isinstance(x[0], env.SymDateTime):
            out = np.empty(len(x), dtype=object)
            for i, v in enumerate(x):
                out[i] = v
            return out
        return np.array(x, *a, **k)


class _DatetimeModuleProxy:
    def __init__(self):
        import datetime as real

        self._r = real
        self.timedelta = env.SymTimedelta

    def __getattr__(self, k):
        return getattr(self._r, k)


def h_datetimes(cx, T, period, pending):
    env.install(cx)
    import numpy as np
    import datetime as real_dt
    import acnportal.acnsim.analysis as AN

    A = acn()
    start = env.make_datetime(cx, "start", doy_range=(362, 365), jan1_in=[2])
    if cx.mode == "sym":
        cx.patch(AN, "np", _DT64Proxy(AN.np))
        cx.patch(AN, "datetime", _DatetimeModuleProxy())
    sim, net, ids, coeffs, R = build(cx, (0, 0), (208, 208), [], T, [], start=start, period=period)
    if pending:
        sim.event_queue.add_event(A.RecomputeEvent(T + 3))
    with warnings.catch_warnings(record=True) as w:
        warnings.simplefilter("always")
        arr = AN.datetimes_array(sim)
        warned = any(issubclass(x.category, UserWarning) for x in w)
    cx.check("warns_iff_events_pending", warned == bool(pending))
    cx.check("one_entry_per_simulated_period", len(arr) == T, note="%d entries for %d periods" % (len(arr), T))
    for k in range(min(T, len(arr))):
        want = env.dt_shift(start, k * period * 60)
        got = arr[k]
        if isinstance(got, env.SymDateTime):
            cx.check("entry[%d]=start+%d*period" % (k, k), and_(eq(got.leap, want.leap), eq(got.jan1, want.jan1), eq(got.doy, want.doy), eq(got.sod, want.sod)))
        else:
            cx.check("entry[%d]=start+%d*period" % (k, k), bool(got == np.datetime64(want)))
    cx.tag("datetimes")
    cx.observe("n", len(arr))


THREE = dict(angles=(30, -90, 150), voltages=(208, 240, 120))
ROWS3 = [("s", "s", None), (None, "s", "s"), ("s", None, "s")]
NAMES3 = ["Secondary C", "Primary A", "Secondary B"]  # registered in non-sorted order
NEMA_ROWS = [(1, None, None), (None, 1, None), (None, None, 1)]
NEMA_ROWS_DELTA = [(1, None, -1), (-1, 1, None), (None, -1, 1)]


def jobs(tier):
    # the whole set costs ~20 s on 16 cores, so the quick tier runs (nearly) all of it; thorough adds longer horizons and more sessions
    deep = tier != "quick"
    q = False
    js = []
    for ang, V, T in ([((30, -90, 150), (208, 240, 120), 2)] if q else [((30, -90, 150), (208, 240, 120), 3), ((0, 0), (120, 277), 2), ((0, 120, -120, 45), (208, 240, 120, 480), 2)]):
        js.append(Job("aggregate[ang=%s,V=%s,T=%d]" % (ang, V, T), h_aggregate, dict(angles=ang, voltages=V, T=T), functions=FUNCS, bounds=dict(stations=len(ang), periods=T, voltages=V)))
        js.append(Job("aggregate[ang=%s,V=%s,T=%d,after_partial_look]" % (ang, V, T), h_aggregate, dict(angles=ang, voltages=V, T=T, partial_first=True), functions=FUNCS,
                      bounds=dict(stations=len(ang), periods=T, voltages=V, history="analysis called after the first period, run completed, analysis called again")))
    reqs = [None, (0,), (2, 0), (1, 2, 0), (2, 1)] if q else [None] + [p for r in (1, 2, 3) for p in itertools.permutations(range(3), r)] + [(1, 1, 0)]
    for request in reqs:
        for flag in (False, True):
            if q and flag and request not in (None, (2, 0)):
                continue
            T = 3 if deep else 2
            js.append(Job("constraint_currents[req=%s,flag=%s]" % (request, flag), h_constraint_currents,
                          dict(angles=THREE["angles"], voltages=THREE["voltages"], rows=ROWS3, T=T, names=NAMES3, request=request, flag=flag), functions=FUNCS,
                          bounds=dict(stations=3, constraints=3, periods=T, coefficients="symbolic in [-2,2], one absent station per row", requested=request, return_magnitudes=flag)))
    for request, r in [((1, 2), 0), ((2,), 1)]:
        js.append(Job("constraint_currents[req=%s,flag=False,remove=%d]" % (request, r), h_constraint_currents,
                      dict(angles=THREE["angles"], voltages=THREE["voltages"], rows=ROWS3, T=2, names=NAMES3, request=request, flag=False, update=("remove", r)), functions=FUNCS + ["acnportal.acnsim.network.charging_network.ChargingNetwork.remove_constraint"],
                      bounds=dict(stations=3, constraints=3, periods=2, requested=request, history="query, remove_constraint(#%d), query again" % r)))
    for request, upd in [((1,), 0), ((0, 2), 1), ((2, 1), 1), (None, 0)] + ([((0, 1, 2), 1), ((2,), 0), ((1,), 2), ((1, 2, 0), 0), ((2, 0), 0)] if deep else []):
        js.append(Job("constraint_currents[req=%s,flag=False,update=%d]" % (request, upd), h_constraint_currents,
                      dict(angles=THREE["angles"], voltages=THREE["voltages"], rows=ROWS3, T=2, names=NAMES3, request=request, flag=False, update=upd), functions=FUNCS + ["acnportal.acnsim.network.charging_network.ChargingNetwork.update_constraint"],
                      bounds=dict(stations=3, constraints=3, periods=2, requested=request, history="query, update_constraint(#%d), query again" % upd)))
    if not q:
        js.append(Job("constraint_currents[single-phase,req=(1,0)]", h_constraint_currents, dict(angles=(0, 0, 0), voltages=(208, 208, 208), rows=ROWS3, T=2, names=NAMES3, request=(1, 0), flag=False),
                      functions=FUNCS, bounds=dict(stations=3, constraints=3, periods=2)))
    for n_ev in ((1, 2, 3, 4, 5, 6) if deep else (1, 2, 3, 4)):
        js.append(Job("energy[n_ev=%d]" % n_ev, h_energy, dict(n_ev=n_ev), functions=FUNCS, bounds=dict(sessions=n_ev, threshold="symbolic in [-1,10]")))
    nema = [((0, 0, 0), NEMA_ROWS, 1, (0, 1, 2)), ((0, 0, 0), NEMA_ROWS_DELTA, 1, (2, 0, 1))]
    if not q:
        nema += [((0, 0, 0), NEMA_ROWS_DELTA, 2, (1, 2, 0)), ((30, -90, 150), NEMA_ROWS, 2, (0, 1, 2)), ((30, -90, 150), NEMA_ROWS, 1, (2, 0, 1))]
        # three-phase delta rows (two-station phasor sums under a square root, three of them in one quotient) come back `unknown`
        # from z3's nonlinear core within 20 s: not claimed; the magnitudes themselves are covered by constraint_currents[...]
    for ang, rows, T, order in nema:
        js.append(Job("nema[ang=%s,rows=%s,T=%d,order=%s]" % (ang, "delta" if rows is NEMA_ROWS_DELTA else "wye", T, order), h_nema,
                      dict(angles=ang, voltages=(208, 208, 208), rows=rows, T=T, names=NAMES3, order=order), functions=FUNCS, timeout=1200,
                      bounds=dict(stations=3, periods=T, phase_order=order, angles=ang), cost=30))
    # the period is documented as a float number of minutes: whole and fractional values
    for T, period, pending in ([(3, 5, False), (2, 720, True)] if q else [(T, p, pe) for T in (1, 3, 4) for p in (1, 5, 60, 1440, 2.5, 0.5) for pe in (False, True)]):
        js.append(Job("datetimes[T=%d,period=%s,pending=%d]" % (T, period, pending), h_datetimes, dict(T=T, period=period, pending=pending), functions=FUNCS,
                      bounds=dict(periods=T, period=period, start="29-31 December of any year type whose 1 January is a Wednesday, any second of the day")))
    return js
