"""C02 - energy ledger: recorded rates, EV energy and battery charge agree; peak and totals follow from the recorded trajectory.

Unit level: one EVSE.set_pilot -> EV.charge -> Battery.charge step from an ARBITRARY state satisfying the ledger invariant
(all parameters symbolic) re-establishes it; simulation level: whole runs of the real Simulator with symbolic event times,
pilots (also addressed to vacant stations) and battery parameters.
"""
from symx import env
from symx.core import le, lt, ge, gt, eq, ne, and_, or_, implies, not_, iff, sym_max, sym_sum
from symx.run import Job
from props import simlib
from props.simlib import make_network, make_battery, make_sim, Scripted, Snap, sym_times, acn

ASSUMPTIONS = simlib.SIM_ASSUMPTIONS + [
    "unit level: arbitrary pre-state with battery.charge - battery.init_charge == ev.energy_delivered, 0 <= charge <= capacity (constructed directly)",
    "np.exp as uninterpreted function with sound ground facts (two-stage continuous battery)",
]

FUNCS = simlib.SIM_FUNCS + ["acnportal.acnsim.analysis.aggregate_current/aggregate_power/total_energy_delivered",
                            "acnportal.acnsim.models.battery.Linear2StageBattery._charge/_charge_stepwise"]


def h_unit(cx, kind, noise):
    env.install(cx)
    env.install_noise(cx)
    import acnportal.acnsim.models.battery as B
    from acnportal.acnsim.models import EV, EVSE

    cap = cx.real("capacity", lo=0, lo_open=True)
    init = cx.real("init_charge", lo=0)
    e0 = cx.real("energy_delivered", lo=0)
    cx.assume(le(init + e0, cap))
    if kind == "ideal":
        maxp = cx.real("max_power", lo=0)
        b = B.Battery(cap, init, maxp)
    else:
        maxp = cx.real("max_power", lo=0, lo_open=True)
        ts = cx.real("transition_soc", lo=0, hi=1, hi_open=True)
        nl = cx.real("noise_level", lo=0, lo_open=True) if noise else 0
        b = B.Linear2StageBattery(cap, init, maxp, noise_level=nl, transition_soc=ts,
                                  charge_calculation="stepwise" if kind == "stepwise" else "continuous")
    req = cx.real("requested", lo=0)
    ev = EV(0, 9, req, "S", "sess", b)
    # state reached by an arbitrary history that satisfies the ledger invariant
    b._current_charge = init + e0
    ev._energy_delivered = e0
    ev._current_charging_rate = cx.real("previous_rate", lo=0)  # whatever the previous period recorded
    evse = EVSE("S", max_rate=float("inf"))
    evse.plugin(ev)
    pilot = cx.real("pilot", lo=-1e-3)  # every pilot the EVSE accepts, its 1e-3 A tolerance below zero included
    V = cx.real("voltage", lo=0, lo_open=True)
    T = cx.real("period", lo=0, lo_open=True)
    evse.set_pilot(pilot, V, T)
    cx.tag("charged")
    rate = ev.current_charging_rate
    bd = b._to_dict()[0]
    ed = ev._to_dict()[0]
    cx.observe("rate", rate)
    cx.observe("energy", ed["_energy_delivered"])
    cx.observe("charge", bd["_current_charge"])
    cx.check("delta_energy=rate*V*T", eq((ed["_energy_delivered"] - e0) * 60000, rate * V * T))
    cx.check("ledger_invariant_kept", eq(bd["_current_charge"] - bd["_init_charge"], ed["_energy_delivered"]))
    cx.check("reported_rate_is_battery_rate", eq(rate * V, b.current_charging_power * 1000))


def h_sim(cx, stations, station_of, H, battery, L, period, bounds_only=False, est=False, shard=None, dry_run=False):
    env.install(cx)
    A = acn()
    snap = Snap()
    sim_ref = [None]
    net = make_network(cx, stations, None, snap, sim_ref)
    times = sym_times(cx, len(station_of), H, station_of)
    if shard is not None:  # (arrival, departure) of the first session pinned: the shards of a job family cover all values
        cx.assume(and_(eq(times[0][0], shard[0]), eq(times[0][1], shard[1])))
    evs, bats = [], []
    for i, (a, d) in enumerate(times):
        b, cap, init, maxp = make_battery(cx, "s%d" % i, battery)
        bats.append((b, cap, init, maxp))
        evs.append(A.EV(a, d, 50000, stations[station_of[i]][0], "sess%d" % i, b))
    sc = Scripted(cx, stations, max_recompute=1, length=L, dry_run=dry_run)
    sim = make_sim(cx, net, sc.algo, evs, period=period)
    sim_ref[0] = sim
    sim.run()
    cx.tag("terminated")
    n = sim.iteration
    rates, pilots = sim.charging_rates, sim.pilot_signals
    V = [s[2] for s in stations]
    cx.observe("rates", rates[:, :n])
    cx.observe("energies", [ev.energy_delivered for ev in evs])
    # physical bounds entrywise (C03, simulation level)
    for t in range(n):
        for r in range(len(stations)):
            cx.check("rate>=0", ge(rates[r, t], 0))
            cx.check("rate<=pilot", le(rates[r, t], pilots[r, t]))
    if bounds_only:
        return
    conn = {r["t"]: r["conn"] for r in snap.rows}
    for i, ev in enumerate(evs):
        row = station_of[i]
        e = 0
        for t in range(n):
            if conn[t][stations[row][0]] == ev.session_id:
                e = e + rates[row, t] * V[row] / 1000 * (period / 60)
        cx.check("energy=sum(rate*V*T)[%d]" % i, eq(ev.energy_delivered, e))
        bd = ev._battery._to_dict()[0]
        cx.check("energy=battery_gain[%d]" % i, eq(bd["_current_charge"] - bd["_init_charge"], ev.energy_delivered))
    for t in range(n):
        for r, s in enumerate(stations):
            if conn[t][s[0]] is None:
                cx.check("rate_zero_when_vacant", eq(rates[r, t], 0))
                cx.tag("pilot_to_vacant_station")
    agg = [sym_sum([rates[r, t] for r in range(len(stations))]) for t in range(n)]
    cx.check("peak=max_aggregate_current", eq(sim.peak, sym_max([0] + agg)))
    ac = A.aggregate_current(sim)
    ap = A.aggregate_power(sim)
    for t in range(n):
        cx.check("aggregate_current=column_sum", eq(ac[t], agg[t]))
        cx.check("aggregate_power=voltage_weighted_sum", eq(ap[t] * 1000, sym_sum([rates[r, t] * V[r] for r in range(len(stations))])))
    cx.check("total_energy=integral_of_power", eq(A.total_energy_delivered(sim), sym_sum([ap[t] * (period / 60) for t in range(n)])))
    cx.check("rates_beyond_end_are_zero", all(not (bool(x != 0)) for x in rates[:, n:].ravel()) if rates.shape[1] > n else True)


def h_stochastic(cx, n_st, n_sess, H):
    """the ledger on a network whose post_charging_update hook changes occupancy (StochasticNetwork with early departure: a
    satisfied EV is swapped for a waiting one at the end of the period in which it was charged)"""
    env.install(cx)
    import acnportal.contrib.acnsim.network.stochastic_network as SN
    from props import C19

    A = acn()
    choices = C19.Choices(cx)
    cx.patch(SN, "random", choices, sym_only=False)
    times = sym_times(cx, n_sess, H, station_of=list(range(n_sess)))
    for i in range(n_sess - 1):
        cx.assume(le(times[i][0], times[i + 1][0]))
    reqs = [cx.real("req%d" % i, lo=0, lo_open=True, hi=20) for i in range(n_sess)]
    sim, net, rec, evs = C19.run_once(cx, n_st, n_sess, H, True, times, reqs, choices, {}, "scripted")
    cx.tag("terminated")
    n = sim.iteration
    rates = sim.charging_rates
    ids = list(net.station_ids)
    periods = [st for st in rec if st["kind"] == "period"]
    cx.check("one_record_per_period", [st["t"] for st in periods] == list(range(n)))
    if [st["t"] for st in periods] != list(range(n)):
        return
    if any(st["early"] > 0 for st in periods):
        cx.tag("early_departure_swap")
    for ev in evs:
        e = 0
        for st in periods:
            for r, sid in enumerate(ids):
                if st["before"][sid] == ev.session_id:
                    e = e + rates[r, st["t"]] * 208 / 1000 * (60 / 60)
        cx.check("stochastic:energy=sum(rate*V*T)", eq(ev.energy_delivered, e))
        bd = ev._battery._to_dict()[0]
        cx.check("stochastic:energy=battery_gain", eq(bd["_current_charge"] - bd["_init_charge"], ev.energy_delivered))
    for st in periods:
        for r, sid in enumerate(ids):
            if st["before"][sid] is None:
                cx.check("stochastic:rate_zero_when_vacant", eq(rates[r, st["t"]], 0))
    ap = A.aggregate_power(sim)
    cx.check("stochastic:total_energy=integral_of_power", eq(A.total_energy_delivered(sim), sym_sum([ap[t] * 1 for t in range(n)])))
    cx.observe("energies", [ev.energy_delivered for ev in evs])


def h_reload(cx, H, battery, period, finish_first):
    """the ledger also holds on a simulator that was written with the public to_json() and read back with from_json() (finished,
    or saved before the end and finished after loading): judged through the LABELLED views only - charging_rates_as_df()
    (columns = station ids), network.voltages (by station id), ev_history (by session id)"""
    env.install(cx)
    env.install_json(cx)
    import warnings

    A = acn()
    # station ids are NOT in sorted order and the voltages differ
    stations = [("W-2", "EVSE", 240, 0), ("E-1", "EVSE", 208, 0), ("N-3", "EVSE", 120, 0)]
    net = make_network(cx, stations, None)
    station_of = (0, 1)
    times = sym_times(cx, 2, H, station_of)
    evs = []
    for i, (a, d) in enumerate(times):
        b, cap, init, maxp = make_battery(cx, "s%d" % i, battery)
        evs.append(A.EV(a, d, 50000, stations[station_of[i]][0], "sess%d" % i, b))
    table = {}
    sc = Scripted(cx, stations, max_recompute=1, length=1, table=table)
    sim = make_sim(cx, net, sc.algo, evs, period=period)
    if finish_first:
        sim.run()
    else:
        # stop after the first period that has events, as an interrupted run would
        crash = Scripted(cx, stations, max_recompute=1, length=1, table=table, crash_at=cx.int("stop_at", 1, H))
        sim = make_sim(cx, net, crash.algo, evs, period=period)
        try:
            sim.run()
        except simlib.Boom:
            cx.tag("saved_mid_run")
    with warnings.catch_warnings():
        warnings.simplefilter("ignore")
        doc = sim.to_json()
        sim2 = A.Simulator.from_json(doc)
    if not sim2.event_queue.empty() or sim2._resolve:
        sim2.update_scheduler(Scripted(cx, stations, max_recompute=1, length=1, table=table).algo)
        sim2.run()
    cx.tag("reloaded")
    n = sim2.iteration
    df = sim2.charging_rates_as_df()
    volt = sim2.network.voltages
    cx.check("reload:station_ids_kept", list(sim2.network.station_ids) == [s[0] for s in stations], note=str(sim2.network.station_ids))
    cx.check("reload:voltages_by_station", all(bool(volt[s[0]] == s[2]) for s in stations), note=str(volt))
    for i in range(2):
        ev = sim2.ev_history["sess%d" % i]
        sid = stations[station_of[i]][0]
        col = list(df[sid])
        e = 0
        for t in range(n):
            e = e + col[t] * volt[sid] / 1000 * (period / 60)
        cx.check("reload:energy=sum(rate*V*T)_of_its_station[%d]" % i, eq(ev.energy_delivered, e))
        bd = ev._battery._to_dict()[0]
        cx.check("reload:energy=battery_gain[%d]" % i, eq(bd["_current_charge"] - bd["_init_charge"], ev.energy_delivered))
    ap = A.aggregate_power(sim2)
    for t in range(n):
        cx.check("reload:aggregate_power=voltage_weighted_sum_by_station", eq(ap[t] * 1000, sym_sum([list(df[s[0]])[t] * s[2] for s in stations])))
    vac = list(df["N-3"])
    cx.check("reload:vacant_station_has_zero_rates", all(not bool(v != 0) for v in vac[:n]))
    cx.observe("energies", [sim2.ev_history["sess%d" % i].energy_delivered for i in range(2)])


def sim_jobs(tier, only_bounds=False):
    # registration order is NOT the sorted order of the ids, and the voltages differ (so a per-station quantity paired with the
    # wrong station shows up in the voltage-weighted sums)
    S2 = [("PS-2", "EVSE", 208, 0), ("PS-1", "DEADBAND", 240, 0)]
    S3 = [("S-30", "EVSE", 208, 0), ("S-4", "CC", 120, 0), ("S-100", "EVSE", 240, 0)]
    if tier == "quick":
        cfgs = [(S2, (0, 1), 3, "ideal", 1, 7), (S2, (0, 0), 3, "stepwise", 2, 90)]
        if only_bounds:
            cfgs = cfgs[:2]
    else:
        cfgs = [(S2, (0, 1), 4, "ideal", 1, 5), (S2, (0, 0), 4, "stepwise", 2, 60), (S3, (0, 1, 1), 4, "ideal", 2, 1),
                (S3, (0, 0, 2), 4, "ideal", 1, 5), (S3, (0, 0, 2), 3, "stepwise", 1, 5), (S3, (0, 1, 2), 3, "ideal", 3, 60)]
        if only_bounds:
            # the entrywise bounds (C03's simulation-level corollary) on the lighter scenarios; the three-session stepwise
            # scenario is judged with the full ledger by C02's own thorough tier
            cfgs = [c for c in cfgs if not (len(c[1]) == 3 and c[3] == "stepwise")]
    js = []
    for st, so, H, bat, L, per in cfgs:
        # three-session scenarios are split by the first session's (arrival, departure) so that the shards run in parallel
        shards = [None] if len(so) < 3 else [(a, d) for a in range(H) for d in range(a + 1, H + 1)]
        if len(so) >= 3 and so.count(so[0]) > 1:
            # another session shares the first session's station: the shard in which the first session occupies the whole horizon is empty
            shards = [sh for sh in shards if sh != (0, H)]
        for sh in shards:
            name = "sim%s[n=%d,sess=%s,H=%d,%s,L=%d,T=%d%s]" % ("_bounds" if only_bounds else "", len(st), "".join(map(str, so)), H, bat, L, per, "" if sh is None else ",first=%d-%d" % sh)
            js.append(Job(name, h_sim, dict(stations=st, station_of=so, H=H, battery=bat, L=L, period=per, bounds_only=only_bounds, shard=sh),
                          functions=FUNCS, expect_tags=("terminated",) if (only_bounds or sh is not None) else ("terminated", "pilot_to_vacant_station"), max_paths=60000, timeout=3000,
                          bounds=dict(stations=len(st), sessions=len(so), horizon=H, schedule_length=L, period_min=per, battery=bat, first_session="any" if sh is None else "arrival %d, departure %d" % sh),
                          cost=(10 ** len(so)) * H * H))
    return js


def jobs(tier):
    js = []
    for kind in ("ideal", "continuous", "stepwise"):
        for noise in ((False,) if kind == "ideal" else (False, True)):
            js.append(Job("unit[%s,noise=%s]" % (kind, noise), h_unit, dict(kind=kind, noise=noise), functions=FUNCS, expect_tags=("charged",),
                          bounds=dict(step="one set_pilot from an arbitrary state satisfying the ledger invariant; all parameters symbolic"),
                          approx=(kind == "continuous"), cost=5))
    js.extend(sim_jobs(tier))
    S2d = [("PS-2", "EVSE", 208, 0), ("PS-1", "DEADBAND", 240, 0)]
    for so, H, bat in ([((0, 1), 2, "ideal")] if tier == "quick" else [((0, 1), 3, "ideal"), ((0, 0), 3, "stepwise")]):
        js.append(Job("sim_dry_run[n=2,sess=%s,H=%d,%s]" % ("".join(map(str, so)), H, bat), h_sim, dict(stations=S2d, station_of=so, H=H, battery=bat, L=1, period=5, dry_run=True), functions=FUNCS + ["acnportal.acnsim.simulator.Simulator.get_active_evs", "acnportal.acnsim.interface.Interface.active_evs"],
                      expect_tags=("terminated",), max_paths=60000, timeout=3000, bounds=dict(stations=2, sessions=2, horizon=H, battery=bat, scheduler="scripted; charges the EV copies of interface.active_evs as a look-ahead at every call"), cost=200))
    for n_st, n_sess, H in ([(1, 2, 3)] if tier == "quick" else [(1, 2, 4), (2, 3, 3), (1, 3, 3)]):
        js.append(Job("stochastic[st=%d,sess=%d,H=%d]" % (n_st, n_sess, H), h_stochastic, dict(n_st=n_st, n_sess=n_sess, H=H), functions=FUNCS + [
            "acnportal.contrib.acnsim.network.stochastic_network.StochasticNetwork.plugin/unplug/post_charging_update", "acnportal.acnsim.simulator.Simulator.run (order of _store_actual_charging_rates and post_charging_update)"],
            expect_tags=("terminated", "early_departure_swap"), max_paths=60000, timeout=3000,
            bounds=dict(stations=n_st, sessions=n_sess, horizon=H, network="StochasticNetwork(early_departure=True), every choice of free station", period_min=60), cost=300))
    for H, bat, per, fin in ([(3, "ideal", 5, True), (3, "ideal", 60, False)] if tier == "quick" else [(4, "ideal", 5, True), (4, "stepwise", 60, False), (3, "stepwise", 1, True), (4, "ideal", 15, False)]):
        js.append(Job("reload[H=%d,%s,T=%d,%s]" % (H, bat, per, "finished" if fin else "saved_mid_run"), h_reload, dict(H=H, battery=bat, period=per, finish_first=fin), functions=FUNCS + [
            "acnportal.acnsim.base.BaseSimObj.to_json/from_json", "acnportal.acnsim.simulator.Simulator._to_dict/_from_dict/update_scheduler/charging_rates_as_df", "acnportal.acnsim.network.charging_network.ChargingNetwork._to_dict/_from_dict/voltages"],
            expect_tags=("reloaded",), max_paths=60000, timeout=3000, bounds=dict(stations=3, sessions=2, horizon=H, period_min=per, battery=bat, station_ids="non-sorted, unequal voltages"), cost=300))
    return js
