"""Shared scenario builder for the scheduling-algorithm harnesses (C07, C08).

A real ChargingNetwork / EVSEs / EVs / Batteries / Simulator / Interface are put into the state "one period has been
simulated, the scheduler is about to be called": every EV is plugged in through network.plugin, the previous period's pilots
are applied through network.update_pilots (real EVSE.set_pilot -> EV.charge -> Battery.charge), the recorded matrices and the
iteration counter are advanced as Simulator.run does.  Symbolic: requested energies, previous pilots, battery power limits
(so the previous actual rate may lie below the pilot), constraint limits, estimator state.
"""
import math

import numpy as _np

from symx import env, core
from symx.core import le, lt, ge, gt, eq, ne, and_, or_, implies, not_, iff, ite, is_sym, sym_max, sym_min
from props.simlib import acn, START

ALG_FUNCS = [
    "acnportal.algorithms.sorted_algorithms.SortedSchedulingAlgo.schedule/run_preprocessing/sorting_algorithm/max_feasible_rate/discrete_max_feasible_rate/run_postprocessing",
    "acnportal.algorithms.sorted_algorithms.RoundRobin.schedule/round_robin", "acnportal.algorithms.sorted_algorithms.first_come_first_served/last_come_first_served/earliest_deadline_first/least_laxity_first/largest_remaining_processing_time",
    "acnportal.algorithms.preprocessing.remove_finished_sessions/enforce_pilot_limit/apply_upper_bound_estimate/apply_minimum_charging_rate/expand_max_min_rates/reconcile_max_and_min",
    "acnportal.algorithms.postprocessing.format_array_schedule", "acnportal.algorithms.utils.infrastructure_constraints_feasible/remaining_amp_periods",
    "acnportal.algorithms.upper_bound_estimator.SimpleRampdown.get_maximum_rates", "acnportal.algorithms.base_algorithm.BaseAlgorithm.run",
    "acnportal.acnsim.interface.Interface.active_sessions/infrastructure_info/remaining_amp_periods/max_pilot_signal/last_applied_pilot_signals/last_actual_charging_rate",
    "acnportal.acnsim.network.charging_network.ChargingNetwork.is_feasible/update_pilots/plugin", "acnportal.acnsim.models.evse.*._valid_rate/set_pilot",
]
PERIOD = 5


def sort_fn(name):
    import acnportal.algorithms as ALG

    return {"fcfs": ALG.first_come_first_served, "lcfs": ALG.last_come_first_served, "edf": ALG.earliest_deadline_first, "llf": ALG.least_laxity_first,
            "lrpt": ALG.largest_remaining_processing_time}[name]


def is_cont(kind):
    return kind[0] == "C" and kind[1:2].isdigit()


def make_evse(sid, kind):
    A = acn()
    if is_cont(kind):  # continuous from zero, max pilot given in the kind, e.g. C0.16 / C32
        return A.EVSE(sid, max_rate=float(kind[1:]))
    if kind == "CC":
        return A.FiniteRatesEVSE(sid, [0, 8, 16, 24, 32])
    if kind == "AV5":
        return A.FiniteRatesEVSE(sid, [0, 6, 7, 8, 9, 10])
    if kind == "AV":
        return A.get_evse_by_type(sid, "AeroVironment")
    raise ValueError(kind)


def levels(kind):
    if kind == "CC":
        return [0, 8, 16, 24, 32]
    if kind == "AV5":
        return [0, 6, 7, 8, 9, 10]
    if kind == "AV":
        return [0] + list(range(6, 33))
    return None


def prev_pilot(cx, name, kind):
    """a symbolic pilot of the previous period which the EVSE accepts"""
    lv = levels(kind)
    if lv is None:
        return cx.real(name, lo=0, hi=float(kind[1:]))
    p = cx.real(name, lo=0, hi=max(lv))
    cx.assume(or_(*[eq(p, v) for v in lv]))
    return p


class Scenario:
    pass


def build(cx, stations, rows, sessions, algo_factory, t_now=2, limit_hi=100.0, unplugged=(), sym_battery=True, finite_prev=None, warmup=False, foreign=False):
    """stations: [(kind, voltage, phase)], rows: constraint coefficient lists, sessions: [(station index, arrival, departure, estimated departure)]"""
    import numpy as np

    A = acn()
    sc = Scenario()
    ids = ["ST-%d" % (len(stations) - j) for j in range(len(stations))]  # registration order is not the sorted order
    if foreign:
        # an earlier, unrelated simulation in the same process: same station ids and the same coefficient rows, but other phase
        # angles, voltages and (loose, concrete) limits, scheduled by another algorithm object of the same kind.  Nothing of it
        # may leak into the scenario that is judged.
        net0 = A.ChargingNetwork()
        for j, (kind, V, ph) in enumerate(stations):
            net0.register_evse(make_evse(ids[j], kind), 277, (ph + 120 * (j + 1)) % 360 - 180)
        for i, row in enumerate(rows):
            net0.add_constraint(A.Current({ids[j]: c for j, c in enumerate(row) if c != 0}), 1000.0 + i, name="con%d" % i)
        algo0 = algo_factory()
        if hasattr(algo0, "continuous_inc"):
            algo0.continuous_inc = algo0.continuous_inc * 4  # the earlier simulation used a coarser round-robin increment
        sim0 = A.Simulator(net0, algo0, A.EventQueue(), START, period=PERIOD, verbose=False)
        for j in range(len(stations)):
            net0.plugin(A.EV(0, 7, 5.0, ids[j], "foreign-%d" % j, A.Battery(1000, 0, 1000)))
        sim0._iteration = 1
        sc.foreign_schedule = algo0.run()
    net = A.ChargingNetwork()
    for j, (kind, V, ph) in enumerate(stations):
        net.register_evse(make_evse(ids[j], kind), V, ph)
    limits = []
    for i, row in enumerate(rows):
        L = cx.real("limit%d" % i, lo=0, hi=limit_hi)
        limits.append(L)
        # with a warm-up call the constraints start with a loose limit and get their real one through update_constraint afterwards
        net.add_constraint(A.Current({ids[j]: c for j, c in enumerate(row) if c != 0}), (1000.0 + i) if warmup == "update" else L, name="con%d" % i)
    algo = algo_factory()
    sim = A.Simulator(net, algo, A.EventQueue(), START, period=PERIOD, verbose=False)
    evs, req, ppil, maxp = [], [], [], []
    n = len(stations)
    if warmup:
        # an earlier scheduler call on the same algorithm object, for other (nearly finished) sessions that occupied the same
        # stations: whatever the algorithm keeps between calls must not leak into the call that is judged
        warm = []
        for j in range(n):
            w = A.EV(0, 5, cx.real("warmup_req%d" % j, lo=0.2, hi=0.7), ids[j], "warm-%d" % j, A.Battery(1000, 0, 1000))
            net.plugin(w)
            warm.append(w)
        sim._iteration = 1
        if warmup == "rr_other_object":
            # the earlier call is made by ANOTHER algorithm object (round robin) attached to the same simulator / network
            import acnportal.algorithms as _ALG

            other = _ALG.RoundRobin(_ALG.first_come_first_served, continuous_inc=0.05)
            other.register_interface(A.Interface(sim))
            sc.warmup_schedule = other.run()
        else:
            sc.warmup_schedule = algo.run()
        for w in warm:
            net.unplug(w.station_id, w.session_id)
        sim._iteration = 0
        # warmup == "update": the network is modified between the two calls (each constraint is updated in turn, which re-appends it:
        # the order of the rows is the original one again at the end); the same algorithm object must see the new limits.
        # warmup == True: nothing happens between the calls (whatever the first call wrote into shared structures is still there)
        for i, row in (enumerate(rows) if warmup == "update" else ()):
            net.update_constraint("con%d" % i, A.Current({ids[j]: c for j, c in enumerate(row) if c != 0}), limits[i])
    P = np.empty((n, t_now + 1), dtype=object if cx.mode == "sym" else float)
    P.fill(0)
    for k, (j, a, d, ed) in enumerate(sessions):
        r = cx.real("req%d" % k, lo=0, lo_open=True, hi=60)
        mp = cx.real("battery_max_power%d" % k, lo=0, lo_open=True, hi=20) if sym_battery else 1000
        # session ids differ from station ids (and do not sort like them)
        ev = A.EV(a, d, r, ids[j], "sess-%s" % "zyxwv"[k], A.Battery(1000, 0, mp), estimated_departure=ed)
        net.plugin(ev)
        sim.ev_history[ev.session_id] = ev
        evs.append(ev)
        req.append(r)
        maxp.append(mp)
        if a >= t_now:
            p = 0
        elif finite_prev is not None and not is_cont(stations[j][0]):
            p = finite_prev[k % len(finite_prev)]  # a concrete allowable level of the previous period
        else:
            p = prev_pilot(cx, "prev_pilot%d" % k, stations[j][0])
        ppil.append(p)
        P[j, t_now - 1] = p
    sim.pilot_signals = P
    R = np.empty((n, t_now + 1), dtype=object if cx.mode == "sym" else float)
    R.fill(0)
    sim.charging_rates = R
    # the previous period, as Simulator.run does it
    sim._iteration = t_now - 1
    net.update_pilots(sim.pilot_signals, t_now - 1, PERIOD)
    sim._store_actual_charging_rates()
    sim._iteration = t_now
    for s in unplugged:
        net.unplug(ids[s], net.get_ev(ids[s]).session_id)
    sc.net, sc.sim, sc.ids, sc.limits, sc.evs, sc.req, sc.prev_pilot, sc.maxp, sc.algo = net, sim, ids, limits, evs, req, ppil, maxp, algo
    sc.iface = A.Interface(sim)
    sc.stations, sc.rows, sc.sessions, sc.t_now = stations, rows, sessions, t_now
    return sc


def remaining_amp_periods(sc, k):
    """definition: remaining demand in A*periods at the session's station voltage"""
    ev = sc.evs[k]
    j = sc.sessions[k][0]
    V = sc.stations[j][1]
    return (sc.req[k] - ev.energy_delivered) * 1000 / V * 60 / PERIOD


def feasible_def(sc, x, scale=1.0):
    """phasor definition of feasibility of the one-period schedule x (list per station), limits scaled by `scale`"""
    conj = []
    for i, row in enumerate(sc.rows):
        L = sc.limits[i]
        lt_ = (L + sym_max(1e-5, 1e-7 * L)) * scale
        # the same double-precision trigonometric constants as the algorithm-side checker (numpy), so that exact-arithmetic decisions coincide
        re = sum(row[j] * x[j] * float(_np.cos(_np.deg2rad(float(sc.stations[j][2])))) for j in range(len(x)) if row[j] != 0)
        im = sum(row[j] * x[j] * float(_np.sin(_np.deg2rad(float(sc.stations[j][2])))) for j in range(len(x)) if row[j] != 0)
        if all(sc.stations[j][2] == 0 for j in range(len(x)) if row[j] != 0):
            conj.append(and_(le(re, lt_), le(-re, lt_)))
        else:
            conj.append(and_(ge(lt_, 0), le(re * re + im * im, lt_ * lt_)))
    return and_(*conj) if conj else core.tt()


def evse_accepts(sc, j, p):
    """membership of p in the allowable set of station j (with the EVSE's 1e-3 tolerance), from the statement"""
    kind = sc.stations[j][0]
    lv = levels(kind)
    if lv is None:
        return and_(ge(p, -1e-3), le(p, float(kind[1:]) + 1e-3))
    return or_(*[and_(ge(p, v - 1e-3), le(p, v + 1e-3)) for v in lv])


def active(cx, sc, k):
    """is session k active (connected and remaining demand > 1e-3)?  decided by forking in symbolic mode"""
    ev = sc.evs[k]
    if sc.net.get_ev(ev.station_id) is not ev:
        return False
    return not bool(ev.fully_charged)
