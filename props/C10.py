"""C10 - results are deterministic and independent of incidental ordering.

Pairs of symbolic executions of the real Simulator on the same symbolic scenario (event times, pilots keyed by station
id and period, battery parameters, constraint limits):
   base run  vs  (a) an identical second run, (b) stations registered in another order, (c) constraints added in another
   order, (d) sessions listed in another order, (e) every event shifted by k periods.
Per-station rows of pilot_signals / charging_rates and per-session energies must be valid-equal (shifted by k).
Schedulers: scripted (pilots keyed by station id and period), UncontrolledCharging, first-come-first-served sorted
algorithm on finite-rate EVSEs with distinct arrivals (no ties).
"""
import itertools

from symx import env, core
from symx.core import le, lt, ge, gt, eq, ne, and_, or_, implies, not_, iff, is_sym
from symx.run import Job
from props.simlib import acn, make_evse, Scripted, START, SIM_FUNCS, SIM_ASSUMPTIONS, allowed_pilot

FUNCS = SIM_FUNCS + ["acnportal.acnsim.network.current.Current.*", "acnportal.algorithms.sorted_algorithms.SortedSchedulingAlgo.*", "acnportal.algorithms.uncontrolled_charging.UncontrolledCharging.schedule",
                     "acnportal.algorithms.utils.infrastructure_constraints_feasible", "acnportal.algorithms.preprocessing.*", "acnportal.algorithms.postprocessing.format_array_schedule"]
ASSUMPTIONS = SIM_ASSUMPTIONS + [
    "permutations of station registration / constraint insertion / session listing are enumerated (one job each); time shift k in {1,2}",
    "earliest-deadline-first jobs: estimated departures symbolic and pairwise distinct, real departures pairwise distinct, arrivals may coincide",
    "first-come-first-served: arrivals pairwise distinct (decisions do not hinge on ties); with uninterrupted charging departures pairwise distinct too (minimum rates are granted in order of remaining time)",
    "behaviour across interpreter processes (PYTHONHASHSEED) is outside the claim",
]


def _scenario(cx, stations, station_of, H, battery, n_cons, distinct, req_lo=0, est=False, together=False, dshard=None):
    """all symbolic inputs of the scenario, created once and shared by both runs"""
    times = []
    for i in range(len(station_of)):
        a = cx.int("a%d" % i, 0, H - 1)
        d = cx.int("d%d" % i, 1, H)
        cx.assume(lt(a, d))
        if together:  # quick tier: every session arrives in period 0 (they are all present at once); departures stay symbolic
            cx.assume(eq(a, 0))
        if dshard is not None:  # departures pinned: the shards of a job family enumerate every assignment inside the bound
            cx.assume(eq(d, dshard[i]))
        times.append((a, d))
    for i in range(len(station_of)):
        for j in range(i + 1, len(station_of)):
            if station_of[i] == station_of[j]:
                cx.assume(or_(le(times[i][1], times[j][0]), le(times[j][1], times[i][0])))
            if distinct and not est:
                cx.assume(ne(times[i][0], times[j][0]))
            if distinct == "arrivals+departures":  # uninterrupted charging orders sessions by remaining time as well
                cx.assume(ne(times[i][1], times[j][1]))
    ests = None
    if est:
        # earliest-deadline-first orders by the user's ESTIMATED departure (symbolic, pairwise distinct, independent of the
        # real one), so arrivals may coincide and all sessions can be present at once inside a short horizon; real
        # departures stay pairwise distinct because the minimum-rate pass orders by time to the real departure
        ests = []
        for i in range(len(station_of)):
            e = cx.int("est%d" % i, 1, H + len(station_of))
            cx.assume(lt(times[i][0], e))
            for f in ests:
                cx.assume(ne(e, f))
            ests.append(e)
    bp = []
    for i in range(len(station_of)):
        if battery == "huge":
            bp.append((100000, 0, 100000))
        else:
            cap = cx.real("cap_%d" % i, lo=0, lo_open=True, hi=200)
            init = cx.real("init_%d" % i, lo=0)
            cx.assume(le(init, cap))
            bp.append((cap, init, cx.real("maxp_%d" % i, lo=0, lo_open=True, hi=50)))
    req = [cx.real("req_%d" % i, lo=req_lo, lo_open=True, hi=100) for i in range(len(station_of))]
    limits = [cx.real("limit_%d" % i, lo=0, hi=100) for i in range(n_cons)]
    return dict(times=times, bp=bp, req=req, limits=limits, table={}, ests=ests)


CONS = [  # (name, coefficients by station index)
    ("c_first", (1, 1, 1)),
    ("c_mixed", (1, -0.5, 0)),
    ("c_last", (0, 1, 0.25)),
]
FEEDERS = [("feeder_A", (1, 0, 1)), ("feeder_B", (0, 1, 0))]  # two independent feeders (stations 0,2 / station 1)


def _run(cx, sc, stations, station_of, battery, sched, n_cons, st_perm, c_perm, s_perm, k, H, via_json=False, unnamed=False):
    sched = sched.replace("_together", "")
    A = acn()
    net = A.ChargingNetwork()
    for j in st_perm:
        sid, kind, V, ph = stations[j]
        net.register_evse(make_evse(sid, kind), V, ph)
    for ci in c_perm:
        name, coeffs = (FEEDERS if "_unint" in sched else CONS)[ci]
        cur = A.Current({stations[j][0]: coeffs[j] for j in st_perm[::-1] if j < len(coeffs) and coeffs[j] != 0})
        # unnamed: the network names constraints by position, so the same names denote other rows in the permuted run
        net.add_constraint(cur, sc["limits"][ci], name=None if unnamed else name)
    evs = []
    for i in s_perm:
        a, d = sc["times"][i]
        b = A.Battery(*sc["bp"][i]) if battery != "stepwise" else A.Linear2StageBattery(*sc["bp"][i], charge_calculation="stepwise")
        evs.append(A.EV(a + k, d + k, sc["req"][i], stations[station_of[i]][0], "sess%d" % i, b, estimated_departure=(sc["ests"][i] + k if sc.get("ests") else None)))
    if sched == "scripted":
        kinds = {s[0]: s[1] for s in stations}

        from acnportal.algorithms import BaseAlgorithm

        class Algo(BaseAlgorithm):
            max_recompute = 1

            def __init__(self):
                super().__init__()
                self.max_recompute = 1

            def schedule(self, active_sessions):
                t = self.interface.current_time
                out = {}
                ids = [stations[j][0] for j in st_perm[::-1]]  # mapping order differs from registration order
                for sid in ids:
                    if t - k < 0:
                        out[sid] = [0]
                        continue
                    key = (sid, t - k)
                    if key not in sc["table"]:
                        sc["table"][key] = allowed_pilot(cx, "p_%s_%d" % (sid, t - k), kinds[sid])
                    out[sid] = [sc["table"][key]]
                return out

        algo = Algo()
    elif sched in ("scripted_mr2", "scripted_mr3"):
        from acnportal.algorithms import BaseAlgorithm

        MR = int(sched[-1])

        class Algo2(BaseAlgorithm):
            """open-loop scheduler: recomputes every 2 periods, returns 2 periods, only for active sessions; what it
            returns depends on WHEN it is called (relative to the scenario's time origin)"""

            def __init__(self):
                super().__init__()
                self.max_recompute = MR

            def schedule(self, active_sessions):
                t = self.interface.current_time
                out = {}
                for s in active_sessions[::-1]:
                    row = []
                    for off in range(MR):
                        key = (s.station_id, t - k, off)
                        if key not in sc["table"]:
                            sc["table"][key] = cx.real("q_%s_%d_%d" % (s.station_id, t - k, off), lo=0, hi=32)
                        row.append(sc["table"][key])
                    out[s.station_id] = row
                return out

        algo = Algo2()
    elif sched in ("fcfs_unint", "edf_unint_est"):
        from acnportal.algorithms import SortedSchedulingAlgo, first_come_first_served, earliest_deadline_first

        algo = SortedSchedulingAlgo(earliest_deadline_first if sched == "edf_unint_est" else first_come_first_served, uninterrupted_charging=True)
    elif sched == "uncontrolled":
        from acnportal.algorithms import UncontrolledCharging

        algo = UncontrolledCharging()
    else:
        from acnportal.algorithms import SortedSchedulingAlgo, first_come_first_served

        algo = SortedSchedulingAlgo(first_come_first_served)
    q = A.EventQueue([A.PluginEvent(ev.arrival, ev) for ev in evs])
    sim = A.Simulator(net, algo, q, START, period=5, verbose=False)
    import warnings

    with warnings.catch_warnings():
        warnings.simplefilter("ignore")
        if via_json:
            # the not-yet-run simulator is written with the public to_json() and read back before it runs
            sim = A.Simulator.from_json(sim.to_json())
            sim.update_scheduler(algo)
            net = sim.network
            evs = list(sim.event_queue._queue[i][1].ev for i in range(len(sim.event_queue._queue)))
        sim.run()
    ids = net.station_ids
    n = sim.iteration
    return dict(n=n, pilots={sid: sim.pilot_signals[r, :n] for r, sid in enumerate(ids)}, rates={sid: sim.charging_rates[r, :n] for r, sid in enumerate(ids)},
                energy={ev.session_id: ev.energy_delivered for ev in evs}, order=ids)


def h_pair(cx, stations, station_of, H, battery, sched, n_cons, st_perm, c_perm, s_perm, k, req_lo=0, via_json=False, dshard=None, unnamed=False):
    env.install(cx)
    if via_json:
        env.install_json(cx)
        cx.tag("json_round_trip_before_run")
    sc = _scenario(cx, stations, station_of, H, battery, n_cons, distinct=("arrivals+departures" if "_unint" in sched else sched.startswith("fcfs")), req_lo=req_lo, est="_est" in sched, together=sched.endswith("_together"), dshard=dshard)
    ident = tuple(range(len(stations)))
    base = _run(cx, sc, stations, station_of, battery, sched, n_cons, ident, tuple(range(n_cons)), tuple(range(len(station_of))), 0, H, unnamed=unnamed)
    other = _run(cx, sc, stations, station_of, battery, sched, n_cons, st_perm, c_perm, s_perm, k, H, via_json=via_json, unnamed=unnamed)
    cx.tag("both_ran")
    cx.observe("n", [base["n"], other["n"]])
    cx.observe("rates", [list(base["rates"][s[0]]) for s in stations])
    cx.check("registration_order_respected", other["order"] == [stations[j][0] for j in st_perm])
    cx.check("length_shifted_by_k", eq(other["n"], base["n"] + k))
    if other["n"] != base["n"] + k:
        return
    for s in stations:
        sid = s[0]
        for t in range(base["n"]):
            cx.check("pilot_row_equal", eq(other["pilots"][sid][t + k], base["pilots"][sid][t]))
            cx.check("rate_row_equal", eq(other["rates"][sid][t + k], base["rates"][sid][t]))
        for t in range(k):
            cx.check("nothing_before_the_shift", and_(eq(other["pilots"][sid][t], 0), eq(other["rates"][sid][t], 0)))
    for sess in base["energy"]:
        cx.check("energy_equal", eq(other["energy"][sess], base["energy"][sess]))
    if any(bool(core.as_prop(gt(v, 0)).weak()) if cx.mode == "conc" else True for v in []):
        pass


def jobs(tier):
    q = tier == "quick"
    S2 = [("PS-B", "EVSE", 208, 0), ("PS-A", "CC", 240, 0)]
    S2f = [("x2", "CC", 208, 0), ("x10", "AV5", 240, 0)]
    S3 = [("n3", "EVSE", 208, 0), ("n1", "CC", 120, 0), ("n2", "DEADBAND", 240, 0)]
    S3f = [("n3", "CC", 208, 0), ("n1", "AV5", 120, 0), ("n2", "CC", 240, 0)]
    js = []

    def add(st, so, H, bat, sched, nc, sp, cp, ssp, k, cost=1, req_lo=0, via_json=False, dshard=None, unnamed=False):
        name = "pair[%s,n=%d,sess=%s,H=%d,%s,cons=%d,stations=%s,constraints=%s,sessions=%s,shift=%d%s%s]" % (
            sched, len(st), "".join(map(str, so)), H, bat, nc, "".join(map(str, sp)), "".join(map(str, cp)), "".join(map(str, ssp)), k, ",json" if via_json else "",
            (",departures=%s" % "".join(map(str, dshard)) if dshard else "") + (",unnamed" if unnamed else ""))
        js.append(Job(name, h_pair, dict(stations=st, station_of=so, H=H, battery=bat, sched=sched, n_cons=nc, st_perm=sp, c_perm=cp, s_perm=ssp, k=k, req_lo=req_lo, via_json=via_json, dshard=dshard, unnamed=unnamed), functions=FUNCS + (
            ["acnportal.acnsim.base.BaseSimObj.to_json/from_json", "acnportal.acnsim.network.charging_network.ChargingNetwork._to_dict/_from_dict", "acnportal.acnsim.simulator.Simulator._to_dict/_from_dict/update_scheduler"] if via_json else []),
                      expect_tags=("both_ran",), max_paths=100000, timeout=6000,
                      bounds=dict(stations=len(st), sessions=len(so), horizon=H, battery=bat, scheduler=sched, constraints=nc, station_order=list(sp), constraint_order=list(cp),
                                  session_order=list(ssp), shift=k, requested_energy_kWh="(%s,100]" % req_lo), cost=cost * (10 ** len(so)) * H))

    # the second run goes through a JSON round trip of the not-yet-run simulator (station ids are not in sorted order, voltages differ)
    add(S2, (0, 1), 2, "ideal", "uncontrolled", 1, (0, 1), (0,), (0, 1), 0, via_json=True)
    add(S2, (0, 1), 2 if q else 3, "huge", "uncontrolled", 2, (1, 0), (1, 0), (1, 0), 0, via_json=True)
    if q:
        add(S2, (0, 1), 2, "ideal", "scripted", 1, (0, 1), (0,), (0, 1), 0)            # identical twice
        add(S2, (0, 1), 2, "ideal", "scripted", 1, (1, 0), (0,), (0, 1), 0)            # stations
        add(S2, (0, 1), 2, "huge", "uncontrolled", 2, (0, 1), (1, 0), (1, 0), 0)       # constraints + sessions
        add(S2, (0, 0), 2, "ideal", "scripted", 1, (1, 0), (0,), (1, 0), 1)            # everything + shift
        add(S2f, (0, 1), 2, "huge", "fcfs", 2, (1, 0), (1, 0), (1, 0), 0, cost=3, req_lo=50)
        add(S2f, (0, 1), 2, "huge", "fcfs", 1, (0, 1), (0,), (0, 1), 1, cost=3, req_lo=50)
        # heterogeneous stations (unequal maxima and voltages) registered in another order, second simulation in the same process
        add(S2f, (0, 1), 2, "ideal", "uncontrolled", 1, (1, 0), (0,), (0, 1), 0)
        # same stations in the same order, constraints named by position and added in the other order (second simulation in the same process)
        add(S2f, (0, 1), 2, "huge", "fcfs", 2, (0, 1), (1, 0), (0, 1), 0, cost=3, req_lo=50, unnamed=True)
        add(S2, (0, 1), 3, "ideal", "uncontrolled", 1, (1, 0), (0,), (1, 0), 1)
        Sc = [("PS-B", "EVSE", 208, 0), ("PS-A", "EVSE", 240, 0)]
        add(Sc, (0, 1), 3, "huge", "scripted_mr2", 1, (1, 0), (0,), (1, 0), 1)        # open-loop scheduler, shift
        add(Sc, (0, 0), 3, "huge", "scripted_mr2", 0, (0, 1), (), (0, 1), 2)
        # recompute period 3 and a horizon long enough for two periodic recomputes: the recompute clock must move with the events
        add(Sc, (0,), 5, "huge", "scripted_mr3", 0, (0, 1), (), (0,), 1)
        add(Sc, (1,), 5, "huge", "scripted_mr3", 0, (0, 1), (), (0,), 2)
        # all three sessions present at once, one feeder congested (a minimum rate may not fit): sharded by the departures
        for ds in itertools.permutations((1, 2, 3)):
            add(S3f, (0, 1, 2), 3, "huge", "edf_unint_est_together", 2, (1, 0, 2), (1, 0), (0, 1, 2), 0, cost=5, req_lo=50, dshard=ds)
    else:
        Sc = [("PS-B", "EVSE", 208, 0), ("PS-A", "EVSE", 240, 0)]
        for k in (1, 2, 3):
            add(Sc, (0, 1), 4, "ideal", "scripted_mr2", 1, (1, 0), (0,), (1, 0), k)
            add(Sc, (0, 1), 5, "huge", "scripted_mr3", 0, (0, 1), (), (0, 1), k)
            add(Sc, (0,), 6, "huge", "scripted_mr3", 1, (1, 0), (0,), (0,), k)
        for sp in itertools.permutations(range(3)):
            add(S3f, (0, 1, 2), 4, "huge", "fcfs_unint", 2, sp, (1, 0), (0, 1, 2), 0, cost=50, req_lo=50)
            if sp != (0, 1, 2):
                for ds in itertools.permutations((1, 2, 3)):
                    add(S3f, (0, 1, 2), 3, "huge", "edf_unint_est", 2, sp, (1, 0), (0, 1, 2), 0, cost=50, req_lo=50, dshard=ds)
        for sp in itertools.permutations(range(3)):
            add(S3, (0, 1, 2), 3, "ideal", "scripted", 3, sp, (0, 1, 2), (0, 1, 2), 0)
            add(S3f, (0, 1, 2), 3, "ideal", "fcfs", 3, sp, (2, 0, 1), (0, 1, 2), 0, cost=3)
        for cp in itertools.permutations(range(3)):
            if cp != (0, 1, 2):
                add(S3f, (0, 1, 2), 3, "huge", "fcfs", 3, (0, 1, 2), cp, (0, 1, 2), 0, cost=3, req_lo=50, unnamed=True)
            add(S3, (0, 1, 1), 3, "stepwise", "scripted", 3, (0, 1, 2), cp, (0, 1, 2), 0)
            add(S3f, (0, 1, 1), 3, "ideal", "fcfs", 3, (2, 1, 0), cp, (2, 0, 1), 0, cost=3)
        for ssp in itertools.permutations(range(3)):
            add(S3, (0, 0, 2), 3, "ideal", "scripted", 2, (0, 1, 2), (0, 1), ssp, 0)
            add(S3, (0, 1, 2), 3, "ideal", "uncontrolled", 2, (1, 2, 0), (1, 0), ssp, 1)
        for sp in itertools.permutations(range(3)):
            if sp != (0, 1, 2):
                add(S3f, (0, 1, 2), 3, "ideal", "uncontrolled", 2, sp, (1, 0), (0, 1, 2), 0)
        for k in (1, 2):
            add(S2, (0, 1), 3, "ideal", "scripted", 2, (1, 0), (1, 0), (1, 0), k)
            add(S2f, (0, 1), 3, "ideal", "fcfs", 2, (1, 0), (1, 0), (1, 0), k, cost=3)
            add(S2, (0, 0), 3, "stepwise", "uncontrolled", 1, (0, 1), (0,), (1, 0), k)
    return js
