"""C20 - the ACN-Data client yields every session once and converts times faithfully.

The real DataClient.get_sessions / get_sessions_by_time / count_sessions and the real utils.http_date / parse_http_date /
parse_dates run against a scripted transport (requests.get / requests.head) whose page structure is explored exhaustively
inside the bound and whose documents carry SYMBOLIC content: every session has a symbolic integer id, a symbolic energy, and
its RFC-1123 fields are tokens carrying a symbolic instant (whole seconds).  "Every session exactly once, in server order"
is then an equality between two sequences of symbolic ids, and "same instant" an equality of symbolic seconds, both decided
by the solver; a dropped, duplicated or re-ordered item, or a conversion that shifts the instant by the zone offset, makes
the equality falsifiable.

What is NOT decided here (C boundary, see DESIGN section 6): the text layout produced / accepted by strftime / strptime and
the zone database itself.  The time-zone library is modelled by its contract for one document zone (America/Los_Angeles, real
DST transition instants read from the installed pytz, instants 2018-2021): localize(naive) subtracts the offset valid at that
wall time, astimezone keeps the instant, strftime / utcoffset use the offset valid at the instant.  Every path witness and
every counterexample is replayed with the real datetime / pytz / strptime on real RFC-1123 strings.
"""
import itertools

from symx import env, core
from symx.core import le, lt, ge, gt, eq, ne, and_, or_, implies, not_, iff, ite, is_sym
from symx.run import Job

FUNCS = [
    "acnportal.acndata.data_client.DataClient.__init__/get_sessions/get_sessions_by_time/count_sessions",
    "acnportal.acndata.utils.http_date/parse_http_date/parse_dates",
]
ASSUMPTIONS = [
    "transport: requests.get(url, auth=...) / requests.head(url, headers=...) answered by a scripted Eve-style server (_items, _links.next.href, x-total-count); page structures: 1-3 pages (quick) / 1-4 (thorough) with 0-2 items each, empty pages anywhere",
    "documents: symbolic integer id, symbolic energy, RFC-1123 fields as tokens carrying a symbolic instant in whole seconds; other strings and numbers concrete",
    "pytz / datetime.strptime / strftime modelled by contract: one document zone (America/Los_Angeles) with the real DST transition instants of the installed pytz database and instants in 2018-2021; localize(naive) subtracts the offset valid at that WALL time (ambiguous / non-existent times resolved to standard time, as pytz does with is_dst=False), astimezone keeps the instant, utcoffset / strftime use the offset valid at the INSTANT, replace(tzinfo=zone) attaches the zone's LMT offset, strptime accepts exactly RFC-1123 tokens with the format constant; other zones, leap seconds and the text layout of the strings are outside the claim",
    "concrete replays of every path use the real requests-free transport stub with real RFC-1123 strings, real pytz and real datetime",
]
EXPECT_GLOBAL_TAGS = ("paging:multi_page", "paging:empty_page_in_the_middle", "invalid_site_rejected", "dates:nested_timestamps", "by_time", "roundtrip")
RFC = "%a, %d %b %Y %H:%M:%S GMT"
BASE = "https://example.invalid/api/v1/"
TZNAME = "America/Los_Angeles"
ZONES = [TZNAME, "America/New_York", "Europe/Berlin"]  # documents of one result set need not share a zone

# ---- model of the date/time environment (symbolic mode only) ------------------------------------------------------------


class DateStr(str):
    """an RFC-1123 date string whose wall-clock value (seconds) is symbolic; the text is only a tag"""

    secs = None


class DeltaSym:
    def __init__(self, secs):
        self.secs = secs

    def total_seconds(self):
        return self.secs


class NaiveSym:
    def __init__(self, secs):
        self.secs = secs

    def __add__(self, o):
        if isinstance(o, DeltaSym):
            return NaiveSym(self.secs + o.secs)
        return NotImplemented

    def __sub__(self, o):
        if isinstance(o, DeltaSym):
            return NaiveSym(self.secs - o.secs)
        return NotImplemented


class AwareSym:
    def __init__(self, instant, zone):
        self.instant, self.zone = instant, zone

    def astimezone(self, zone):
        return AwareSym(self.instant, zone)

    def utcoffset(self):
        return DeltaSym(self.zone.off_inst(self.instant))

    def replace(self, tzinfo=None, **kw):
        if kw:
            raise TypeError("unmodelled replace() fields")
        wall = self.instant + self.zone.off_inst(self.instant)
        if tzinfo is None:
            return NaiveSym(wall)
        # datetime.replace(tzinfo=pytz zone) attaches the zone's FIRST (LMT) offset - the classic pytz pitfall
        return AwareSym(wall - tzinfo.lmt_offset, tzinfo)

    def strftime(self, fmt):
        reg = core.Ctx.cur.registry
        s = DateStr("<date#%d>" % len(reg))
        s.secs = self.instant + self.zone.off_inst(self.instant)
        s.fmt = fmt
        reg.append(s)
        return s

    def timestamp(self):
        return self.instant

    @property
    def tzinfo(self):
        return self.zone


class ZoneSym:
    """a time zone by its contract: piecewise-constant UTC offset with the zone's real transition instants (read from the
    installed pytz database for 2017-2023); localize() resolves ambiguous / non-existent wall times as pytz does with
    is_dst=False (standard time)"""

    def __init__(self, name, base_offset, transitions=(), lmt_offset=0):
        self.name, self.zone = name, name
        self.base, self.transitions, self.lmt_offset = base_offset, list(transitions), lmt_offset

    def off_inst(self, t):
        o = self.base
        for T, o_next in self.transitions:
            o = ite(ge(t, T), o_next, o)
        return o

    def off_wall(self, w):
        o = self.base
        for T, o_next in self.transitions:
            o = ite(ge(w, T + o_next), o_next, o)
        return o

    def localize(self, naive, is_dst=False):
        return AwareSym(naive.secs - self.off_wall(naive.secs), self)

    def utcoffset(self, naive):
        return DeltaSym(self.off_wall(naive.secs))


LO_INSTANT, HI_INSTANT = 1514764800, 1640995200  # 2018-01-01 .. 2022-01-01 UTC: the window in which the zone model is exact


def real_zone_model(name):
    import calendar
    import pytz

    tz = pytz.timezone(name)
    times = [calendar.timegm(t.timetuple()) for t in tz._utc_transition_times[1:]]
    infos = [int(i[0].total_seconds()) for i in tz._transition_info[1:]]
    base = None
    trans = []
    for T, o in zip(times, infos):
        if T <= LO_INSTANT - 400 * 86400:
            base = o
        elif T < HI_INSTANT + 400 * 86400:
            trans.append((T, o))
    lmt = int(tz._transition_info[0][0].total_seconds())
    return ZoneSym(name, base, trans, lmt)


class PytzSym:
    def __init__(self, cx):
        self.cx = cx
        self.utc = self.UTC = ZoneSym("UTC", 0)
        self.zones = {"UTC": self.utc}

    def timezone(self, name):
        if name not in self.zones:
            self.zones[name] = real_zone_model(name)
        return self.zones[name]


class DatetimeSym:
    """stands for the class `datetime` inside acndata.utils"""

    @staticmethod
    def strptime(ds, fmt):
        if isinstance(ds, DateStr) and fmt == ds.fmt:
            return NaiveSym(ds.secs)
        raise ValueError("time data %r does not match format %r" % (str(ds), fmt))


def install_time(cx):
    import acnportal.acndata.utils as U

    cx.registry = []
    if cx.mode == "sym":
        pz = PytzSym(cx)
        pz.zones[TZNAME] = real_zone_model(TZNAME)
        cx.patch(U, "pytz", pz)
        cx.patch(U, "datetime", DatetimeSym)
        import acnportal.acndata.data_client as DC

        if hasattr(DC, "pytz"):  # a client that resolves zones itself must meet the same model
            cx.patch(DC, "pytz", pz)
        return pz
    return None


def date_field(cx, name, lo=LO_INSTANT, hi=HI_INSTANT):
    """an RFC-1123 field with a symbolic instant -> (string to put in the document, instant in seconds)"""
    secs = cx.int(name, lo, hi)
    if cx.mode == "sym":
        s = DateStr("<date#%d>" % len(cx.registry))
        s.secs, s.fmt = secs, RFC
        cx.registry.append(s)
        return s, secs
    import datetime as _dt

    return _dt.datetime.fromtimestamp(secs, _dt.timezone.utc).strftime(RFC), secs


def instant_of(v):
    """instant (seconds since the epoch) of a parsed value, in either mode"""
    if isinstance(v, AwareSym):
        return v.instant
    return int(v.timestamp())


def zone_of(v):
    if isinstance(v, AwareSym):
        return v.zone.name
    return getattr(v.tzinfo, "zone", None) or str(v.tzinfo)


def is_parsed(v):
    import datetime as _dt

    return isinstance(v, (AwareSym, _dt.datetime))


# ---- scripted transport ---------------------------------------------------------------------------------------------------


class Resp:
    def __init__(self, payload=None, headers=None):
        self._p, self.headers = payload, headers or {}

    def json(self):
        return self._p


class Server:
    def __init__(self, pages, first_path):
        self.pages, self.log, self.first_path = pages, [], first_path

    def get(self, url, auth=None, **kw):
        self.log.append(("GET", url, auth, kw))
        k = len([x for x in self.log if x[0] == "GET"]) - 1
        if k == 0:
            idx = 0
        else:
            if not url.startswith(BASE + "page/"):
                raise RuntimeError("client requested an unknown URL: %s" % url)
            idx = int(url[len(BASE + "page/"):].split("?")[0])
        links = {"self": {"href": "x"}, "parent": {"href": "/"}}
        if idx + 1 < len(self.pages):
            links["next"] = {"href": "page/%d?token=abc" % (idx + 1)}
        return Resp({"_items": self.pages[idx], "_links": links, "_meta": {"page": idx + 1}})

    def head(self, url, headers=None, **kw):
        self.log.append(("HEAD", url, headers, kw))
        return Resp(headers={"x-total-count": 42})


def make_doc(cx, tag, with_ts, zone=TZNAME):
    did = cx.int("id_" + tag, 0, 10 ** 6)
    conn, t_conn = date_field(cx, "conn_" + tag)
    disc, t_disc = date_field(cx, "disc_" + tag)
    doc = {"_id": did, "timezone": zone, "connectionTime": conn, "disconnectTime": disc, "doneChargingTime": None, "sessionID": "2_39_%s" % tag,
           "kWhDelivered": cx.real("kwh_" + tag, lo=0, hi=100), "siteID": "0002", "userInputs": [{"requestedDeparture": "left as text"}]}
    truth = dict(id=did, connectionTime=t_conn, disconnectTime=t_disc, ts=None, zone=zone)
    if with_ts:
        a, ta = date_field(cx, "ts0_" + tag)
        b, tb = date_field(cx, "ts1_" + tag)
        doc["chargingCurrent"] = {"timestamps": [a, b], "current": [6.0, 7.5]}
        doc["pilotSignal"] = {"current": [8.0]}
        truth["ts"] = [ta, tb]
    return doc, truth


def check_doc(cx, label, out, truth):
    cx.check(label + ":connectionTime_parsed", is_parsed(out["connectionTime"]) and is_parsed(out["disconnectTime"]))
    if is_parsed(out["connectionTime"]) and is_parsed(out["disconnectTime"]):
        cx.check(label + ":same_instant", and_(eq(instant_of(out["connectionTime"]), truth["connectionTime"]), eq(instant_of(out["disconnectTime"]), truth["disconnectTime"])))
        cx.check(label + ":document_zone", zone_of(out["connectionTime"]) == truth["zone"] and zone_of(out["disconnectTime"]) == truth["zone"], note="%s, document zone %s" % (zone_of(out["connectionTime"]), truth["zone"]))
    cx.check(label + ":other_fields_untouched", out["sessionID"].startswith("2_39_") and out["timezone"] == truth["zone"] and out["doneChargingTime"] is None and
             out["siteID"] == "0002" and out["userInputs"] == [{"requestedDeparture": "left as text"}])
    if truth["ts"] is not None:
        cx.tag("dates:nested_timestamps")
        ts = out["chargingCurrent"]["timestamps"]
        ok = len(ts) == 2 and all(is_parsed(v) for v in ts)
        cx.check(label + ":nested_timestamps_parsed", ok)
        if ok:
            cx.check(label + ":nested_same_instant", and_(*[eq(instant_of(v), t) for v, t in zip(ts, truth["ts"])]))
            cx.check(label + ":nested_zone", all(zone_of(v) == truth["zone"] for v in ts))
        cx.check(label + ":nested_values_untouched", out["chargingCurrent"]["current"] == [6.0, 7.5] and out["pilotSignal"] == {"current": [8.0]})


def expected_first_url(site, cond, project, sort, timeseries):
    args = []
    if cond is not None:
        args.append("where=" + cond)
    if project is not None:
        args.append("project=" + project)
    if sort is not None:
        args.append("sort=" + sort)
    args.append("max_results=%d" % (1 if timeseries else 100))
    return BASE + "sessions/" + site + ("/ts/" if timeseries else "") + "?" + "&".join(args)


def h_paging(cx, shape, site, cond, project, sort, timeseries):
    """shape: tuple of items-per-page"""
    import acnportal.acndata.data_client as DC

    install_time(cx)
    pages, truths = [], []
    for p, k in enumerate(shape):
        page = []
        for i in range(k):
            d, t = make_doc(cx, "%d_%d" % (p, i), with_ts=timeseries, zone=ZONES[(p + 2 * i) % len(ZONES)])
            page.append(d)
            truths.append(t)
        pages.append(page)
    srv = Server(pages, None)
    cx.patch(DC, "requests", srv, sym_only=False)
    client = DC.DataClient("TOKEN", url=BASE)
    got = list(client.get_sessions(site, cond=cond, project=project, sort=sort, timeseries=timeseries))
    if len(shape) > 1:
        cx.tag("paging:multi_page")
    if any(k == 0 for k in shape[:-1]) and len(shape) > 1:
        cx.tag("paging:empty_page_in_the_middle")
    cx.check("yielded_count", len(got) == len(truths), note="%d yielded, %d on the server" % (len(got), len(truths)))
    for k, (g, t) in enumerate(zip(got, truths)):
        cx.check("yielded[%d]_is_server_item[%d]" % (k, k), eq(g["_id"], t["id"]))
    # distinct server ids => no item twice (stated on ids so that a duplicate is a solver-visible equality)
    gets = [x for x in srv.log if x[0] == "GET"]
    cx.check("one_request_per_page", len(gets) == len(shape), note="%d requests for %d pages" % (len(gets), len(shape)))
    cx.check("first_url", gets[0][1] == expected_first_url(site, cond, project, sort, timeseries), note=gets[0][1])
    for k, g in enumerate(gets[1:], start=1):
        cx.check("next_url[%d]" % k, g[1] == BASE + "page/%d?token=abc" % k, note=g[1])
    cx.check("auth_on_every_request", all(g[2] == ("TOKEN", "") for g in gets))
    for k, (g, t) in enumerate(zip(got, truths)):
        check_doc(cx, "doc[%d]" % k, g, t)
    cx.observe("ids", [g["_id"] for g in got])
    cx.observe("instants", [instant_of(g["connectionTime"]) for g in got if is_parsed(g["connectionTime"])])


class Server2:
    """two result sets behind one API: the first request of a query names its site, later pages are reached through its own links"""

    def __init__(self, sets):
        self.sets, self.log = sets, []

    def get(self, url, auth=None, **kw):
        self.log.append(("GET", url, auth, kw))
        if url.startswith(BASE + "sessions/"):
            site, idx = url[len(BASE + "sessions/"):].split("?")[0], 0
        elif url.startswith(BASE + "page/"):
            site, idx = url[len(BASE + "page/"):].split("?")[0].split("/")
            idx = int(idx)
        else:
            raise RuntimeError("client requested an unknown URL: %s" % url)
        pages = self.sets[site]
        links = {"self": {"href": "x"}, "parent": {"href": "/"}}
        if idx + 1 < len(pages):
            links["next"] = {"href": "page/%s/%d?token=abc" % (site, idx + 1)}
        return Resp({"_items": pages[idx], "_links": links, "_meta": {"page": idx + 1}})


def h_two_queries(cx, shape_a, shape_b, pattern):
    """two session generators obtained from ONE client and consumed with overlap: each yields exactly its own result set, in
    server order (a generator owns its position in the paging; nothing of it lives on the client)"""
    import acnportal.acndata.data_client as DC

    install_time(cx)
    sets, truths = {}, {}
    for site, shape in (("caltech", shape_a), ("jpl", shape_b)):
        pages, tr = [], []
        for p, k in enumerate(shape):
            page = []
            for i in range(k):
                d, t = make_doc(cx, "%s_%d_%d" % (site[0], p, i), with_ts=False)
                page.append(d)
                tr.append(t)
            pages.append(page)
        sets[site], truths[site] = pages, tr
    srv = Server2(sets)
    cx.patch(DC, "requests", srv, sym_only=False)
    client = DC.DataClient("TOKEN", url=BASE)
    ga, gb = client.get_sessions("caltech"), client.get_sessions("jpl", cond='kWhDelivered > 5', sort="connectionTime")
    got = {"caltech": [], "jpl": []}
    if pattern == "lockstep":
        ia, ib = iter(ga), iter(gb)
        alive = [("caltech", ia), ("jpl", ib)]
        while alive:
            for site, it in list(alive):
                try:
                    got[site].append(next(it))
                except StopIteration:
                    alive.remove((site, it))
    else:  # nested: A is started, B runs to completion, A is resumed
        ia = iter(ga)
        first = next(ia, None)
        if first is not None:
            got["caltech"].append(first)
        got["jpl"] = list(gb)
        got["caltech"].extend(ia)
    cx.tag("two_queries:" + pattern)
    for site in ("caltech", "jpl"):
        cx.check("%s:yielded_count" % site, len(got[site]) == len(truths[site]), note="%d yielded, %d on the server" % (len(got[site]), len(truths[site])))
        for k, (g, t) in enumerate(zip(got[site], truths[site])):
            cx.check("%s:yielded[%d]_is_its_server_item" % (site, k), eq(g["_id"], t["id"]))
    gets = [x for x in srv.log if x[0] == "GET"]
    cx.check("one_request_per_page_of_each_query", len(gets) == len(shape_a) + len(shape_b), note="%d requests" % len(gets))
    firsts = [g[1] for g in gets if g[1].startswith(BASE + "sessions/")]
    cx.check("each_query_sends_only_its_own_parameters", sorted(firsts) == sorted([expected_first_url("caltech", None, None, None, False), expected_first_url("jpl", 'kWhDelivered > 5', None, "connectionTime", False)]), note=str(firsts))
    cx.observe("n", [len(got["caltech"]), len(got["jpl"])])


def h_invalid_site(cx, site):
    import acnportal.acndata.data_client as DC

    install_time(cx)
    srv = Server([[]], None)
    cx.patch(DC, "requests", srv, sym_only=False)
    client = DC.DataClient("TOKEN", url=BASE)
    for label, call in (("get_sessions", lambda: list(client.get_sessions(site))), ("count_sessions", lambda: client.count_sessions(site)),
                        ("get_sessions_by_time", lambda: list(client.get_sessions_by_time(site)))):
        try:
            call()
            cx.check(label + ":invalid_site_raises", False)
        except ValueError:
            cx.check(label + ":invalid_site_raises", True)
    cx.check("no_request_sent", srv.log == [], note=str(srv.log))
    cx.tag("invalid_site_rejected")
    cx.observe("n", len(srv.log))


def h_by_time(cx, has_start, has_end, has_min, timeseries, count):
    """get_sessions_by_time builds the filter from http_date(start/end) and min_energy, sorts by connectionTime"""
    import acnportal.acndata.data_client as DC
    import acnportal.acndata.utils as U
    import datetime as _dt
    import email.utils

    pz = install_time(cx)
    srv = Server([[]], None)
    cx.patch(DC, "requests", srv, sym_only=False)
    client = DC.DataClient("TOKEN", url=BASE)
    t_start = cx.int("start_instant", LO_INSTANT, HI_INSTANT)
    t_end = cx.int("end_instant", LO_INSTANT, HI_INSTANT)
    if cx.mode == "sym":
        zone = pz.timezone(TZNAME)
        start, end = AwareSym(t_start, zone), AwareSym(t_end, pz.utc)
    else:
        import pytz

        start = _dt.datetime.fromtimestamp(t_start, pytz.timezone(TZNAME))
        end = _dt.datetime.fromtimestamp(t_end, pytz.utc)
    n0 = len(cx.registry)
    res = client.get_sessions_by_time("jpl", start=start if has_start else None, end=end if has_end else None, min_energy=(None if not has_min else (0 if has_min == "zero" else 7.5)),
                                      timeseries=timeseries, count=count)
    if not count:
        res = list(res)
    cx.tag("by_time")
    req = srv.log[0] if srv.log else None
    cx.check("one_request", len(srv.log) == 1)
    if req is None:
        return
    url = req[1]
    made = cx.registry[n0:]
    # expected condition text
    parts, k = [], 0
    for flag, op, inst in ((has_start, ">=", t_start), (has_end, "<=", t_end)):
        if flag:
            if cx.mode == "sym":
                ok = k < len(made)
                cx.check("date_formatted_for_query", ok)
                if not ok:
                    return
                cx.check("query_date_is_the_instant_in_GMT", and_(eq(made[k].secs, inst), made[k].fmt == RFC))
                parts.append('connectionTime %s "%s"' % (op, str(made[k])))
                k += 1
            else:
                parts.append('connectionTime %s "%s"' % (op, email.utils.format_datetime(_dt.datetime.fromtimestamp(inst, _dt.timezone.utc), usegmt=True)))
    if has_min:
        parts.append("kWhDelivered > 0" if has_min == "zero" else "kWhDelivered > 7.5")  # an energy of 0 is a filter too
    cond = " and ".join(parts)
    if count:
        cx.check("count_request", req[0] == "HEAD" and url == BASE + "sessions/jpl?where=" + cond + "&limit=1", note=url)
        cx.check("count_returned", res == 42)
    else:
        cx.check("filter_sort_pagesize_sent", req[0] == "GET" and url == expected_first_url("jpl", cond, None, "connectionTime", timeseries), note=url)
    cx.observe("nreq", len(srv.log))


def h_roundtrip(cx):
    """parse_http_date(http_date(dt), tz) denotes the same instant (whole seconds) in zone tz, for dt given in any zone"""
    import acnportal.acndata.utils as U
    import datetime as _dt

    pz = install_time(cx)
    inst = cx.int("instant", LO_INSTANT, HI_INSTANT)
    if cx.mode == "sym":
        zone = pz.timezone(TZNAME)
        dts = [AwareSym(inst, zone), AwareSym(inst, pz.utc)]
    else:
        import pytz

        zone = pytz.timezone(TZNAME)
        dts = [_dt.datetime.fromtimestamp(inst, zone), _dt.datetime.fromtimestamp(inst, pytz.utc)]
    for k, dt in enumerate(dts):
        back = U.parse_http_date(U.http_date(dt), zone)
        cx.check("roundtrip[%d]:same_instant" % k, eq(instant_of(back), inst))
        cx.check("roundtrip[%d]:requested_zone" % k, zone_of(back) == TZNAME)
    # a string that is not RFC-1123 is left alone by parse_dates, RFC-1123 strings and nested timestamps are converted
    s, t = date_field(cx, "field")
    doc = {"timezone": TZNAME, "a": s, "b": "2020-01-01T00:00:00", "c": 3, "d": {"timestamps": [s], "x": "y"}, "e": {"no": "ts"}, "f": None}
    U.parse_dates(doc)
    cx.check("parse_dates:rfc_field_converted", is_parsed(doc["a"]) and is_parsed(doc["d"]["timestamps"][0]))
    if is_parsed(doc["a"]) and is_parsed(doc["d"]["timestamps"][0]):
        cx.check("parse_dates:same_instant", and_(eq(instant_of(doc["a"]), t), eq(instant_of(doc["d"]["timestamps"][0]), t)))
    cx.check("parse_dates:others_untouched", doc["b"] == "2020-01-01T00:00:00" and doc["c"] == 3 and doc["d"]["x"] == "y" and doc["e"] == {"no": "ts"} and doc["f"] is None and doc["timezone"] == TZNAME)
    cx.tag("roundtrip")
    cx.tag("dates:nested_timestamps")
    cx.observe("inst", inst)


def jobs(tier):
    q = tier == "quick"
    js = []
    maxp = 3 if q else 4
    shapes = [s for n in range(1, maxp + 1) for s in itertools.product(range(3), repeat=n)]
    if q:
        shapes = [s for s in shapes if len(s) < 3 or sum(s) <= 3]
    argsets = [("caltech", None, None, None, False), ("jpl", 'kWhDelivered > 5', None, "connectionTime", False), ("office001", None, '{"_id": 1}', None, True),
               ("caltech", 'x == "y"', '{"kWhDelivered": 1}', "-connectionTime", True)]
    if not q:
        argsets += [("jpl", None, None, "connectionTime", True), ("office001", "a", "b", None, False), ("caltech", None, "p", "s", False), ("jpl", "c", None, None, True)]
    for ai, (site, cond, project, sort, ts) in enumerate(argsets):
        group = shapes if (not q or ai < 2) else [s for s in shapes if len(s) <= 2]
        # one job per argument set and page count
        for n in sorted({len(s) for s in group}):
            for s in [x for x in group if len(x) == n]:
                js.append(Job("paging[args=%d,pages=%s]" % (ai, "".join(map(str, s))), h_paging, dict(shape=s, site=site, cond=cond, project=project, sort=sort, timeseries=ts),
                              functions=FUNCS, bounds=dict(pages=len(s), items_per_page=list(s), site=site, where=cond, project=project, sort=sort, timeseries=ts), cost=sum(s) + 1))
    for sa, sb, pat in ([((1, 1), (1, 1, 1), "lockstep"), ((2, 1), (1, 0, 1), "nested")] if q else
                        [(a, b, pat) for a in ((1, 1), (2, 0, 1), (1,)) for b in ((1, 1, 1), (0, 2), (1, 1)) for pat in ("lockstep", "nested")]):
        js.append(Job("two_queries[%s|%s,%s]" % ("".join(map(str, sa)), "".join(map(str, sb)), pat), h_two_queries, dict(shape_a=sa, shape_b=sb, pattern=pat), functions=FUNCS,
                      bounds=dict(queries=2, items_per_page=[list(sa), list(sb)], consumption=pat, client="one DataClient object")))
    for site in ("Caltech", "", "jpl2"):
        js.append(Job("invalid_site[%r]" % site, h_invalid_site, dict(site=site), functions=FUNCS, bounds=dict(site=site)))
    for hs, he, hm, ts, cnt in itertools.product((False, True), (False, True), (False, True, "zero"), (False, True), (False, True)):
        if q and hm != "zero" and (hs + he + hm + ts + cnt) % 2 == 0 and not (hs and he and hm):
            continue
        if q and hm == "zero" and (hs + he + ts + cnt) % 2 == 1:
            continue
        js.append(Job("by_time[start=%d,end=%d,min=%s,ts=%d,count=%d]" % (hs, he, {False: "0", True: "1", "zero": "zero"}[hm], ts, cnt), h_by_time, dict(has_start=hs, has_end=he, has_min=hm, timeseries=ts, count=cnt),
                      functions=FUNCS, bounds=dict(start=hs, end=he, min_energy=hm, timeseries=ts, count=cnt)))
    js.append(Job("roundtrip", h_roundtrip, {}, functions=FUNCS, bounds=dict(instant="any whole second 2018-2021", zones="America/Los_Angeles with its real DST transitions, UTC")))
    return js
