#!/bin/bash
# Builds /verif/.venv: an overlay of /venv (the repository's interpreter + deps) with the
# solver wheels from the offline wheelhouse.  Idempotent; safe to call from every check.
set -e
HERE="$(cd "$(dirname "$0")" && pwd)"
VENV="$HERE/.venv"
STAMP="$VENV/.ok"
if [ -f "$STAMP" ]; then exit 0; fi
exec 9>"$HERE/.bootstrap.lock"
flock 9
if [ -f "$STAMP" ]; then exit 0; fi
rm -rf "$VENV"
/venv/bin/python -m venv "$VENV" >/dev/null
SP="$("$VENV/bin/python" -c 'import site;print(site.getsitepackages()[0])')"
printf "import site; site.addsitedir('/venv/lib/python3.12/site-packages')\n" > "$SP/zz_overlay.pth"
PIP_NO_INDEX=1 "$VENV/bin/python" -m pip install -q --no-index --find-links /opt/veriftools/wheels z3-solver cvc5 >/dev/null 2>&1 || \
PIP_NO_INDEX=1 "$VENV/bin/python" -m pip install -q --no-index --find-links /opt/veriftools/wheels z3-solver >/dev/null
"$VENV/bin/python" -c "import z3, numpy, pandas, acnportal" 
touch "$STAMP"
