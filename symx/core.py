"""symx core: shadow symbolic execution of real Python code over z3.

Value classes wrap z3 terms; `SymBool.__bool__` is the fork point; `explore` re-executes a harness
depth-first over decision prefixes until every feasible path inside the harness' bounds has been run.
The same harness also runs in *concrete* mode (plain Python numbers taken from a solver model) so that
every path / counterexample can be replayed against the unpatched implementation.
"""
import fractions
import math
import time
import traceback
from collections import OrderedDict

import numpy as _np
import z3

Fraction = fractions.Fraction

import os as _os
import sys as _sys

_sys.set_int_max_str_digits(0)  # model values can be rationals with thousands of digits

# z3's Python pretty-printer is exponential on large shared terms: bound it (affects only diagnostics)
z3.set_option(max_depth=6, max_args=8, max_lines=8, max_width=120, max_visited=300)

FORK_SITES = {} if _os.environ.get("SYMX_TRACE_FORKS") else None
BRANCH_TIMEOUT_MS = 2000
CHECK_TIMEOUT_MS = 20000
NLSAT_TIMEOUT_MS = 120000
EXP_ROUNDS = __builtins__["int"](_os.environ.get("SYMX_EXP_ROUNDS", "6")) if isinstance(__builtins__, dict) else __builtins__.int(_os.environ.get("SYMX_EXP_ROUNDS", "6"))


class Abort(BaseException):
    """Path cannot be continued (infeasible prefix, budget)."""


class AssumptionFailed(BaseException):
    """Concrete replay does not satisfy an assumption (model rounding) -> replay not usable."""


# --------------------------------------------------------------------------------------------
# lifting


def lift_num(v):
    """The ONE place where Python numbers become z3 numerals (exact binary value of floats)."""
    if isinstance(v, bool) or isinstance(v, _np.bool_):
        raise TypeError("bool in arithmetic")
    if isinstance(v, (int, _np.integer)):
        return z3.IntVal(int(v))
    if isinstance(v, (float, _np.floating)):
        v = float(v)
        if math.isinf(v) or math.isnan(v):
            raise OverflowError("inf/nan cannot be lifted")
        if v == int(v) and abs(v) < 2 ** 53:
            return z3.RealVal(int(v))
        f = Fraction(v)
        return z3.RealVal("%d/%d" % (f.numerator, f.denominator))
    if isinstance(v, Fraction):
        if v.denominator == 1:
            return z3.IntVal(v.numerator)
        return z3.RealVal("%d/%d" % (v.numerator, v.denominator))
    raise TypeError("cannot lift %r" % type(v))


def is_concrete_num(v):
    return isinstance(v, (int, float, Fraction, _np.integer, _np.floating)) and not isinstance(
        v, (bool, _np.bool_)
    )


def is_sym(v):
    return isinstance(v, (SymReal, SymBool, SymComplex, SymNorm))


def toz3(v):
    if isinstance(v, SymReal):
        return v.e
    if isinstance(v, SymNorm):
        return v.materialize().e
    if isinstance(v, SymBool):
        return v.e
    if isinstance(v, (bool, _np.bool_)):
        return z3.BoolVal(bool(v))
    return lift_num(v)


def _is_inf(v):
    return isinstance(v, (float, _np.floating)) and math.isinf(v)


def _wrap(e):
    """wrap an arithmetic z3 term, folding numerals back to Python numbers"""
    e = z3.simplify(e) if _cheap(e) else e
    if z3.is_int_value(e):
        return e.as_long()
    if z3.is_rational_value(e):
        fr = Fraction(e.numerator_as_long(), e.denominator_as_long())
        return int(fr) if fr.denominator == 1 else float(fr) if _exact_float(fr) else SymReal(e)
    if e.sort() == z3.IntSort():
        return SymInt(e)
    return SymReal(e)


def _exact_float(fr):
    try:
        return Fraction(float(fr)) == fr
    except OverflowError:
        return False


def _cheap(e):
    # only simplify terms that are syntactically constant (no uninterpreted consts): keeps folding O(1)
    return e.num_args() <= 2 and all(z3.is_rational_value(a) or z3.is_int_value(a) for a in e.children()) and e.num_args() > 0


# --------------------------------------------------------------------------------------------
# context


# second-solver cross-check: the first discharged (unsat) query of every distinct obligation kind of a job is exported as
# SMT-LIB2 text (path condition + negated obligation) and handed to cvc5 by the runner (symx/run.py)
XQUERIES = []
_XSEEN = set()
XCAP = int(_os.environ.get("VERIF_XCHECK_PER_JOB", "6"))


def _xcollect(cx, label, neg):
    import re as _re

    if len(XQUERIES) >= XCAP:
        return
    key = _re.sub(r"\[[^\]]*\]|\d+", "#", label)
    if key in _XSEEN:
        return
    _XSEEN.add(key)
    try:
        s2 = z3.Solver()
        s2.add(*cx.solver.assertions())
        s2.add(neg)
        XQUERIES.append((label, s2.to_smt2()))
    except Exception:
        pass


class Obligation:
    __slots__ = ("label", "status", "assignment", "detail", "secs")

    def __init__(self, label, status, assignment=None, detail=None, secs=0.0):
        self.label, self.status, self.assignment, self.detail, self.secs = label, status, assignment, detail, secs

    def as_dict(self):
        return dict(label=self.label, status=self.status, assignment=self.assignment, detail=self.detail, secs=round(self.secs, 4))


class Ctx:
    cur = None

    def __init__(self, mode="sym", prefix=(), assignment=None, seed=0):
        self.mode = mode
        self.prefix = list(prefix)
        self.trace = []  # [(decision, forked)]
        self.assignment = dict(assignment or {})
        self.inputs = OrderedDict()  # name -> z3 const (sym) / value (conc)
        self.obligations = []
        self.observations = OrderedDict()
        self.tags = []
        self.soft_tags = []
        self.nchecks = 0
        self.tcheck = 0.0
        self.fresh = 0
        self.model = None
        self.exp_args = []
        self.patches = []
        self.warnings = []
        self.unknown_branches = 0
        self.registry = None  # free slot for harness-level environment models (e.g. date tokens of C20)
        self.cones = None  # when a list: every comparison |re + i im| <= L is recorded as (re, im, L, strict)
        self.seed = seed
        if mode == "sym":
            self.solver = z3.Solver()
            self.solver.set("timeout", BRANCH_TIMEOUT_MS)
        else:
            self.solver = None

    # ---- solver plumbing
    def _check(self, *extra, timeout=None):
        t = time.time()
        if timeout is not None:
            self.solver.set("timeout", timeout)
        r = self.solver.check(*extra)
        if timeout is not None:
            self.solver.set("timeout", BRANCH_TIMEOUT_MS)
        self.tcheck += time.time() - t
        self.nchecks += 1
        return r

    def add(self, e):
        self.solver.add(e)

    def fresh_name(self, base):
        self.fresh += 1
        return "%s!%d" % (base, self.fresh)

    # ---- inputs
    def _declare(self, name, var):
        if name in self.inputs:
            raise KeyError("duplicate input " + name)
        self.inputs[name] = var

    def real(self, name, lo=None, hi=None, lo_open=False, hi_open=False):
        if self.mode == "conc":
            v = self.assignment[name]
            v = float(Fraction(v)) if isinstance(v, str) else float(v)
            self.inputs[name] = v
            return v
        x = z3.Real(name)
        self._declare(name, x)
        if lo is not None:
            self.solver.add(x > lift_num(lo) if lo_open else x >= lift_num(lo))
        if hi is not None:
            self.solver.add(x < lift_num(hi) if hi_open else x <= lift_num(hi))
        self.model = None
        return SymReal(x)

    def int(self, name, lo=None, hi=None):
        if self.mode == "conc":
            v = int(self.assignment[name])
            self.inputs[name] = v
            return v
        x = z3.Int(name)
        self._declare(name, x)
        if lo is not None:
            self.solver.add(x >= lo)
        if hi is not None:
            self.solver.add(x <= hi)
        self.model = None
        return SymInt(x)

    def bool(self, name):
        """a concrete bool chosen by forking"""
        return bool(self.choice(name, [False, True]))

    def choice(self, name, options):
        """a concrete element of `options`, chosen by forking (one path per feasible option)"""
        options = list(options)
        if self.mode == "conc":
            i = int(self.assignment[name])
            self.inputs[name] = i
            return options[i]
        if len(options) == 1:
            x = z3.Int(name)
            self._declare(name, x)
            self.solver.add(x == 0)
            return options[0]
        idx = self.int(name, 0, len(options) - 1)
        return options[concretize(idx)]

    # ---- assumptions / obligations
    def assume(self, cond):
        p = as_prop(cond)
        if self.mode == "conc":
            if not p.weak():
                raise AssumptionFailed(str(p))
            return
        self.solver.add(p.z3())
        self.model = None

    def feasible(self):
        if self.mode == "conc":
            return True
        r = self._check()
        if r == z3.unsat:
            return False
        return True

    def tag(self, label, soft=False):
        """reachability witness; soft tags (decided by a solver 'is it possible' query, symbolic mode only) are not compared
        with the concrete replay of the path"""
        (self.soft_tags if soft else self.tags).append(label)

    def observe(self, label, value):
        self.observations[label] = value

    def check(self, label, cond, note=None):
        """Obligation: `cond` must hold for every input on this path."""
        p = as_prop(cond)
        if self.mode == "conc":
            ok = p.weak()
            self.obligations.append(Obligation(label, "holds" if ok else "violated", None, note))
            return ok
        t0 = time.time()
        if not p.symbolic():
            ok = p.weak()
            if ok:
                self.obligations.append(Obligation(label, "unsat", None, "concrete", 0.0))
                return True
            r = self._check()
            asg = self.model_assignment(self.solver.model()) if r == z3.sat else None
            self.obligations.append(Obligation(label, "sat" if asg is not None else "unknown", asg, note or ("concrete false: " + str(p)[:300]), time.time() - t0))
            return False
        neg = z3.Not(p.z3())
        if self.exp_args:
            # uninterpreted exp on this path: short attempt with the combined solver, then the exp-abstracted
            # pure-NRA query with z3's complete procedure (sound for unsat only), then a long combined attempt
            r = self._check(neg, timeout=3000)
            if r == z3.unknown:
                if self.check_abstracted(neg, NLSAT_TIMEOUT_MS) == z3.unsat:
                    r = z3.unsat
                    note = (note or "") + " [exp-abstracted nlsat]"
            if r == z3.unknown:
                r = self._check(neg, timeout=CHECK_TIMEOUT_MS)
        else:
            r = self._check(neg, timeout=CHECK_TIMEOUT_MS)
        if r == z3.unknown:
            # last resort before the obligation is reported undecided (time-outs are wall-clock: a loaded machine needs more)
            r = self._check(neg, timeout=4 * CHECK_TIMEOUT_MS)
        if r == z3.unsat:
            self.obligations.append(Obligation(label, "unsat", None, note, time.time() - t0))
            _xcollect(self, label, neg)
            return True
        pin = []
        if r == z3.sat and self.exp_args:
            # exp is uninterpreted here, so a model may give it values the real function never takes: incremental
            # linearisation (tangent / chord lemmas at the model's points, all true facts about exp) either refutes the
            # model for good (-> unsat) or ends in a model whose exp values are the real ones to 1e-12 (pinned arguments)
            r, pin, m_ref = self._refine_exp(neg)
            if r == z3.unsat:
                self.obligations.append(Obligation(label, "unsat", None, (note or "") + " [exp linearisation lemmas]", time.time() - t0))
                return True
        if r == z3.sat:
            if pin:
                self.solver.push()
                self.solver.add(*pin)
                if self._check(neg, timeout=CHECK_TIMEOUT_MS) != z3.sat:  # cannot happen (just found sat); be safe
                    self.solver.pop()
                    pin = []
            m = self.solver.model() if (pin or not self.exp_args) else m_ref
            # prefer a counterexample that violates by a margin (survives float replay)
            for slack in (1e-2, 1e-4, 1e-7):
                try:
                    neg2 = z3.Not(p.z3(slack=slack))
                except Exception:
                    break
                r2 = self._check(neg2, timeout=5000)
                if r2 == z3.sat:
                    m = self.solver.model()
                    neg = neg2
                    break
            # ... and that stays away from the switching points of the if-then-else terms inside the property
            # (a model sitting exactly on such a point is decided by rounding in the float replay)
            if not pin:
                m = self._away_from_ite_boundaries(neg, m)
            else:
                self.solver.pop()
            self.obligations.append(Obligation(label, "sat", self.model_assignment(m), note or str(p)[:300], time.time() - t0))
            return False
        self.obligations.append(Obligation(label, "unknown", None, note, time.time() - t0))
        return False

    def _away_from_ite_boundaries(self, neg, m, eps="1/10000", limit=40):
        try:
            atoms = []
            _ite_cond_atoms(neg, set(), atoms)
            if not atoms:
                return m
            self.solver.push()
            try:
                self.solver.add(neg)
                for a in atoms[:limit]:
                    x, y = a.arg(0), a.arg(1)
                    if x.sort() == z3.BoolSort():
                        continue
                    d = z3.RealVal(eps)
                    self.solver.push()
                    self.solver.add(z3.Or(_real(x) - _real(y) >= d, _real(y) - _real(x) >= d))
                    if self._check(timeout=2000) == z3.sat:
                        m = self.solver.model()
                    else:
                        self.solver.pop()
                        continue
                return m
            finally:
                # pops every level pushed above, kept or not
                while self.solver.num_scopes() > 0:
                    self.solver.pop()
        except z3.Z3Exception:
            return m

    def _refine_exp(self, neg, rounds=EXP_ROUNDS):
        """returns (unsat, []) | (sat, pin-constraints of a model with real exp values) | (sat, []) when undecided"""
        for _ in range(rounds):
            m = self.solver.model()
            pts = []
            for a in self.exp_args:
                v = m.eval(a, model_completion=True)
                try:
                    fr = Fraction(v.numerator_as_long(), v.denominator_as_long())
                    ex = math.exp(float(fr))
                except Exception:
                    return z3.sat, [], m
                if ex == 0.0 or ex == float("inf") or fr.denominator > 10 ** 40:
                    return z3.sat, [], m
                lo, hi = Fraction(ex) * (1 - Fraction(1, 10 ** 12)), Fraction(ex) * (1 + Fraction(1, 10 ** 12))
                pts.append((a, fr, lo, hi))
            pin = []
            for a, fr, lo, hi in pts:
                pin += [a == lift_num(fr), EXP(a) >= lift_num(lo), EXP(a) <= lift_num(hi)]
            self.solver.push()
            self.solver.add(*pin)
            r = self._check(neg, timeout=CHECK_TIMEOUT_MS)
            self.solver.pop()
            if r == z3.sat:
                return z3.sat, pin, m
            # lemmas (kept: they are facts): tangent at each point from below, chords between known points from above
            known = getattr(self, "_exp_pts", [])
            for a, fr, lo, hi in pts:
                if all(k[0] != fr for k in known):
                    known.append((fr, lo, hi))
            known.sort()
            self._exp_pts = known
            for a in self.exp_args:
                y = EXP(a)
                for fr, lo, hi in known:
                    self.solver.add(y >= lift_num(lo) * (1 + a - lift_num(fr)))
                for (p0, _, h0), (p1, _, h1) in zip(known, known[1:]):
                    self.solver.add(z3.Implies(z3.And(a >= lift_num(p0), a <= lift_num(p1)), y <= lift_num(h0) + lift_num((h1 - h0) / (p1 - p0)) * (a - lift_num(p0))))
            r = self._check(neg, timeout=CHECK_TIMEOUT_MS)
            if r == z3.unsat:
                return z3.unsat, [], None
            if r != z3.sat:
                return z3.sat, [], m  # lemmas made the query hard: the last model stands (undecided, replay will tell)
        return z3.sat, [], self.solver.model()

    def check_abstracted(self, extra, timeout_ms):
        """Decide  PC /\\ extra  after replacing every application of the uninterpreted exp by a fresh real variable
        (an over-approximation: congruence is lost, explicitly added lemmas are kept) with z3's complete NRA procedure."""
        t = time.time()
        asserts = list(self.solver.assertions()) + [extra]
        asserts = abstract_uf(asserts, EXP)
        s = z3.Tactic("qfnra-nlsat").solver()
        s.set("timeout", timeout_ms)
        s.add(*asserts)
        r = s.check()
        self.tcheck += time.time() - t
        self.nchecks += 1
        return r

    def model_assignment(self, m):
        out = OrderedDict()
        for name, var in self.inputs.items():
            v = m.eval(var, model_completion=True)
            out[name] = _model_value(v)
        return out

    def path_model(self):
        """concrete inputs that follow this path (None if solver cannot produce one)"""
        if self.mode != "sym":
            return None
        r = self._check(timeout=5000)
        if r != z3.sat:
            return None
        return self.model_assignment(self.solver.model())

    def eval_in(self, m_assignment_model, value):
        raise NotImplementedError

    # ---- patching of module globals (environment model)
    def patch(self, module, name, value, sym_only=True, must_exist=True):
        if sym_only and self.mode != "sym":
            return
        sentinel = object()
        old = module.__dict__.get(name, sentinel) if hasattr(module, "__dict__") else sentinel
        if old is sentinel:
            if hasattr(module, name):
                old = ("attr", getattr(module, name))
            elif must_exist:
                raise StubTargetMissing("%s.%s" % (getattr(module, "__name__", module), name))
            else:
                old = ("missing", None)
        else:
            old = ("dict", old)
        self.patches.append((module, name, old))
        setattr(module, name, value)

    def unpatch_all(self):
        for module, name, (kind, old) in reversed(self.patches):
            if kind == "missing":
                try:
                    delattr(module, name)
                except AttributeError:
                    pass
            else:
                setattr(module, name, old)
        self.patches = []


class StubTargetMissing(Exception):
    pass


def _model_value(v):
    if z3.is_int_value(v):
        return v.as_long()
    if z3.is_rational_value(v):
        fr = Fraction(v.numerator_as_long(), v.denominator_as_long())
        return "%d/%d" % (fr.numerator, fr.denominator) if fr.denominator != 1 else fr.numerator
    if z3.is_algebraic_value(v):
        a = v.approx(20)
        fr = Fraction(a.numerator_as_long(), a.denominator_as_long())
        return "%d/%d" % (fr.numerator, fr.denominator)
    if z3.is_true(v):
        return 1
    if z3.is_false(v):
        return 0
    return str(v)


def ctx():
    return Ctx.cur


# --------------------------------------------------------------------------------------------
# property language (shared by symbolic and concrete mode)

REL_TOL = 1e-9


def _num(v):
    if isinstance(v, SymNorm):
        return v.materialize()
    return v


def _fl(v):
    if isinstance(v, Fraction):
        return float(v)
    if isinstance(v, complex):
        raise TypeError("complex in property")
    return float(v)


def _both_int(a, b):
    return isinstance(a, (int, _np.integer)) and isinstance(b, (int, _np.integer)) and not isinstance(a, bool) and not isinstance(b, bool)


class Prop:
    def __init__(self, kind, *args):
        self.kind, self.args = kind, args

    def symbolic(self):
        if self.kind in ("le", "lt", "eq"):
            return any(isinstance(a, (SymReal, SymNorm)) for a in self.args)
        if self.kind == "bool":
            return isinstance(self.args[0], (SymBool, z3.BoolRef))
        return any(a.symbolic() for a in self.args)

    # --- z3 encoding; slack>0 weakens the property (pos polarity) / strengthens under negation
    def z3(self, slack=0.0, pos=True):
        k, a = self.kind, self.args
        if k == "bool":
            v = a[0]
            if isinstance(v, SymBool):
                return v.e
            if isinstance(v, z3.BoolRef):
                return v
            return z3.BoolVal(bool(v))
        if k in ("le", "lt", "eq"):
            if not self.symbolic():
                return z3.BoolVal(self.weak() if pos else self.strong())
            x, y = toz3(_num(a[0])), toz3(_num(a[1]))
            s = lift_num(slack) if slack else None
            if k == "le":
                if s is None:
                    return x <= y
                return x <= y + s if pos else x <= y - s
            if k == "lt":
                if s is None:
                    return x < y
                return x < y + s if pos else x < y - s
            if s is None or not pos:
                return x == y
            return z3.And(x - y <= s, y - x <= s)
        if k == "not":
            return z3.Not(a[0].z3(slack, not pos))
        if k == "and":
            return z3.And(*[p.z3(slack, pos) for p in a]) if a else z3.BoolVal(True)
        if k == "or":
            return z3.Or(*[p.z3(slack, pos) for p in a]) if a else z3.BoolVal(False)
        raise ValueError(k)

    # --- concrete evaluation with tolerance: weak() = "holds up to rounding"; strong() = "holds with margin"
    def _tol(self):
        x, y = _fl(self.args[0]), _fl(self.args[1])
        return REL_TOL * max(1.0, abs(x), abs(y)), x, y

    def weak(self):
        k, a = self.kind, self.args
        if k == "bool":
            return bool(a[0])
        if k in ("le", "lt", "eq"):
            if _is_inf(a[0]) or _is_inf(a[1]):
                x, y = float(a[0]), float(a[1])
                return x <= y if k == "le" else x < y if k == "lt" else x == y
            if _both_int(a[0], a[1]):  # integers (timestamps, counts) are compared exactly
                x, y = int(a[0]), int(a[1])
                return x <= y if k == "le" else x < y if k == "lt" else x == y
            t, x, y = self._tol()
            return x <= y + t if k in ("le", "lt") else abs(x - y) <= t
        if k == "not":
            return not a[0].strong()
        if k == "and":
            return all(p.weak() for p in a)
        if k == "or":
            return any(p.weak() for p in a)
        raise ValueError(k)

    def strong(self):
        k, a = self.kind, self.args
        if k == "bool":
            return bool(a[0])
        if k in ("le", "lt", "eq"):
            if _is_inf(a[0]) or _is_inf(a[1]):
                x, y = float(a[0]), float(a[1])
                return x <= y if k == "le" else x < y if k == "lt" else x == y
            if _both_int(a[0], a[1]):
                x, y = int(a[0]), int(a[1])
                return x <= y if k == "le" else x < y if k == "lt" else x == y
            t, x, y = self._tol()
            return x <= y - t if k in ("le", "lt") else x == y
        if k == "not":
            return not a[0].weak()
        if k == "and":
            return all(p.strong() for p in a)
        if k == "or":
            return any(p.strong() for p in a)
        raise ValueError(k)

    def __str__(self):
        if self.kind in ("le", "lt", "eq"):
            op = {"le": "<=", "lt": "<", "eq": "=="}[self.kind]
            return "(%s %s %s)" % (_short(self.args[0]), op, _short(self.args[1]))
        if self.kind == "bool":
            return _short(self.args[0])
        return "%s(%s)" % (self.kind, ", ".join(str(p) for p in self.args))

    def __bool__(self):
        raise TypeError("Prop used as a Python bool; use cx.check / cx.assume")


def _short(v):
    s = str(v.e) if isinstance(v, (SymReal, SymBool)) else str(v)
    s = " ".join(s.split())
    return s if len(s) < 120 else s[:117] + "..."


def as_prop(c):
    if isinstance(c, Prop):
        return c
    if isinstance(c, (SymBool, z3.BoolRef, bool, _np.bool_)):
        return Prop("bool", c)
    raise TypeError("not a property: %r" % (c,))


def le(a, b):
    return Prop("le", a, b)


def lt(a, b):
    return Prop("lt", a, b)


def ge(a, b):
    return Prop("le", b, a)


def gt(a, b):
    return Prop("lt", b, a)


def eq(a, b):
    if isinstance(a, (str, type(None))) or isinstance(b, (str, type(None))):
        return Prop("bool", a == b)
    if isinstance(a, (bool, _np.bool_)) and isinstance(b, (bool, _np.bool_)):
        return Prop("bool", bool(a) == bool(b))
    if isinstance(a, SymBool) or isinstance(b, SymBool):
        return Prop("bool", toz3(a) == toz3(b))
    return Prop("eq", a, b)


def ne(a, b):
    return not_(eq(a, b))


def and_(*ps):
    flat = []
    for p in ps:
        if isinstance(p, (list, tuple)):
            flat.extend(as_prop(q) for q in p)
        else:
            flat.append(as_prop(p))
    return Prop("and", *flat)


def or_(*ps):
    flat = []
    for p in ps:
        if isinstance(p, (list, tuple)):
            flat.extend(as_prop(q) for q in p)
        else:
            flat.append(as_prop(p))
    return Prop("or", *flat)


def not_(p):
    return Prop("not", as_prop(p))


def implies(p, q):
    return or_(not_(p), q)


def iff(p, q):
    return and_(implies(p, q), implies(q, p))


def tt():
    return Prop("bool", True)


def ff():
    return Prop("bool", False)


def ite(c, a, b):
    """value-level if-then-else (no fork)"""
    if isinstance(c, Prop):
        if not c.symbolic():
            return a if c.weak() else b
        c = c.z3()
    elif isinstance(c, SymBool):
        c = c.e
    elif isinstance(c, (bool, _np.bool_)):
        return a if c else b
    return _wrap(z3.If(c, _arith(a), _arith(b)))


def _arith(v):
    v = _num(v)
    if isinstance(v, SymReal):
        return v.e
    return lift_num(v)


# --------------------------------------------------------------------------------------------
# value classes


class SymBool:
    __slots__ = ("e",)

    def __init__(self, e):
        self.e = e

    def __bool__(self):
        return _branch(self.e)

    def __and__(self, o):
        return SymBool(z3.And(self.e, toz3(o)))

    __rand__ = __and__

    def __or__(self, o):
        return SymBool(z3.Or(self.e, toz3(o)))

    __ror__ = __or__

    def __invert__(self):
        return SymBool(z3.Not(self.e))

    def __eq__(self, o):
        if isinstance(o, (SymBool, bool, _np.bool_)):
            return SymBool(self.e == toz3(o))
        return NotImplemented

    def __hash__(self):
        return 0

    def __deepcopy__(self, memo):
        return self

    def __copy__(self):
        return self

    def __repr__(self):
        return "SymBool(%s)" % _short(self)


def _branch(e):
    c = Ctx.cur
    if c is None or c.mode != "sym":
        raise RuntimeError("symbolic branch outside a symbolic context")
    e = z3.simplify(e)
    if z3.is_true(e):
        return True
    if z3.is_false(e):
        return False
    i = len(c.trace)
    if i < len(c.prefix):
        d = c.prefix[i]
        c.trace.append((d, False))
        c.solver.add(e if d else z3.Not(e))
        c.model = None
        return d
    can_t = can_f = None
    m = c.model
    if m is not None:
        try:
            v = m.eval(e, model_completion=True)
            if z3.is_true(v):
                can_t = True
            elif z3.is_false(v):
                can_f = True
        except z3.Z3Exception:
            pass
    m_t = m if can_t else None
    m_f = m if can_f else None
    if can_t is None:
        r = c._check(e)
        can_t = r != z3.unsat
        if r == z3.sat:
            m_t = c.solver.model()
        elif r == z3.unknown:
            c.unknown_branches += 1
    if can_f is None:
        r = c._check(z3.Not(e))
        can_f = r != z3.unsat
        if r == z3.sat:
            m_f = c.solver.model()
        elif r == z3.unknown:
            c.unknown_branches += 1
    if can_t and can_f:
        if FORK_SITES is not None:
            import sys as _sys
            f = _sys._getframe(1)
            site = []
            while f is not None and len(site) < 3:
                fn = f.f_code.co_filename
                if "/symx/" not in fn and "numpy" not in fn:
                    site.append("%s:%d" % (fn.split("/")[-1], f.f_lineno))
                f = f.f_back
            k = " < ".join(site)
            FORK_SITES[k] = FORK_SITES.get(k, 0) + 1
        c.trace.append((True, True))
        c.solver.add(e)
        c.model = m_t
        return True
    if can_t:
        c.trace.append((True, False))
        c.solver.add(e)
        c.model = m_t
        return True
    if can_f:
        c.trace.append((False, False))
        c.solver.add(z3.Not(e))
        c.model = m_f
        return False
    raise Abort("infeasible path condition")


def concretize(x):
    """concrete Python int for a SymInt, forking over its feasible values"""
    if not isinstance(x, SymReal):
        return int(x)
    c = Ctx.cur
    guard = 0
    while True:
        guard += 1
        if guard > 10000:
            raise Abort("concretize: too many values")
        m = c.model
        if m is None:
            r = c._check()
            if r != z3.sat:
                if r == z3.unsat:
                    raise Abort("infeasible in concretize")
                raise Abort("unknown in concretize")
            m = c.model = c.solver.model()
        v = m.eval(x.e, model_completion=True)
        if z3.is_int_value(v):
            iv = v.as_long()
        elif z3.is_rational_value(v) and v.denominator_as_long() == 1:
            iv = v.numerator_as_long()
        else:
            # non-integral model value of a real used as index: constrain to integer
            c.solver.add(z3.IsInt(x.e))
            c.model = None
            continue
        if _branch(x.e == iv):
            return iv


class SymReal:
    """Real- or Int-sorted arithmetic term."""

    __slots__ = ("e",)

    def __init__(self, e):
        self.e = e

    # numpy asks for these on object arrays
    def conjugate(self):
        return self

    @property
    def real(self):
        return self

    @property
    def imag(self):
        return 0

    def __deepcopy__(self, memo):
        return self

    def __copy__(self):
        return self

    def __hash__(self):
        return 0

    def __repr__(self):
        return "%s(%s)" % (type(self).__name__, _short(self))

    def __format__(self, spec):
        return "<sym %s>" % _short(self)

    __str__ = __repr__

    def is_int(self):
        return self.e.sort() == z3.IntSort()

    # ---- arithmetic
    def _other(self, o):
        if isinstance(o, SymNorm):
            return o.materialize().e
        if isinstance(o, SymReal):
            return o.e
        if is_concrete_num(o):
            if _is_inf(o) or (isinstance(o, (float, _np.floating)) and math.isnan(o)):
                return None
            return lift_num(o)
        return None

    def __add__(self, o):
        if isinstance(o, (complex, SymComplex, _np.complexfloating)):
            return SymComplex(self, 0) + o
        if _is_inf(o):
            return o
        z = self._other(o)
        if z is None:
            return NotImplemented
        if is_concrete_num(o) and o == 0:
            return self
        return _wrap(self.e + z)

    __radd__ = __add__

    def __sub__(self, o):
        if isinstance(o, (complex, SymComplex, _np.complexfloating)):
            return SymComplex(self, 0) - o
        if _is_inf(o):
            return -o
        z = self._other(o)
        if z is None:
            return NotImplemented
        if is_concrete_num(o) and o == 0:
            return self
        return _wrap(self.e - z)

    def __rsub__(self, o):
        if _is_inf(o):
            return o
        z = self._other(o)
        if z is None:
            return NotImplemented
        return _wrap(z - self.e)

    def __mul__(self, o):
        if isinstance(o, (complex, SymComplex, _np.complexfloating)):
            return SymComplex(self, 0) * o
        z = self._other(o)
        if z is None:
            return NotImplemented
        if is_concrete_num(o):
            if o == 0:
                return 0
            if o == 1:
                return self
        return _wrap(self.e * z)

    __rmul__ = __mul__

    def __truediv__(self, o):
        if isinstance(o, (complex, SymComplex, _np.complexfloating)):
            return NotImplemented
        if _is_inf(o):
            return 0.0
        z = self._other(o)
        if z is None:
            return NotImplemented
        if is_concrete_num(o) and o == 1:
            return self
        return _wrap(_real(self.e) / _real(z))

    def __rtruediv__(self, o):
        z = self._other(o)
        if z is None:
            return NotImplemented
        if is_concrete_num(o) and o == 0:
            return 0
        return _wrap(_real(z) / _real(self.e))

    def __floordiv__(self, o):
        z = self._other(o)
        if z is None:
            return NotImplemented
        if self.is_int() and z.sort() == z3.IntSort():
            return _wrap(self.e / z)  # z3 integer division: floor for positive divisors
        return _wrap(z3.ToInt(_real(self.e) / _real(z)))

    def __rfloordiv__(self, o):
        z = self._other(o)
        if z is None:
            return NotImplemented
        if self.is_int() and z.sort() == z3.IntSort():
            return _wrap(z / self.e)
        return _wrap(z3.ToInt(_real(z) / _real(self.e)))

    def __mod__(self, o):
        z = self._other(o)
        if z is None:
            return NotImplemented
        if self.is_int() and z.sort() == z3.IntSort():
            return _wrap(self.e % z)
        q = z3.ToInt(_real(self.e) / _real(z))
        return _wrap(self.e - q * z)

    def __pow__(self, o):
        if isinstance(o, (int, _np.integer)) and 0 <= int(o) <= 4:
            r = 1
            for _ in range(int(o)):
                r = self * r
            return r
        if o == 0.5:
            return self.sqrt()
        return NotImplemented

    def __neg__(self):
        return _wrap(-self.e)

    def __pos__(self):
        return self

    def __abs__(self):
        return _wrap(z3.If(self.e >= 0, self.e, -self.e))

    # ---- comparisons
    def _cmp(self, o, f, inf_hi, inf_lo):
        if isinstance(o, SymNorm):
            return NotImplemented
        if _is_inf(o):
            return inf_hi if o > 0 else inf_lo
        z = self._other(o)
        if z is None:
            return NotImplemented
        return SymBool(f(self.e, z))

    def __lt__(self, o):
        return self._cmp(o, lambda a, b: a < b, True, False)

    def __le__(self, o):
        return self._cmp(o, lambda a, b: a <= b, True, False)

    def __gt__(self, o):
        return self._cmp(o, lambda a, b: a > b, False, True)

    def __ge__(self, o):
        return self._cmp(o, lambda a, b: a >= b, False, True)

    def __eq__(self, o):
        if _is_inf(o):
            return False
        if isinstance(o, SymNorm):
            return NotImplemented
        z = self._other(o)
        if z is None:
            return False
        return SymBool(self.e == z)

    def __ne__(self, o):
        if _is_inf(o):
            return True
        z = self._other(o)
        if z is None:
            return True
        return SymBool(self.e != z)

    # ---- conversions: force concretisation (forks) only for Int-sorted values
    def __index__(self):
        return concretize(self)

    def __int__(self):
        # int() reached from C code (e.g. numpy storing into an integer array): Python's truncation, decided by forking over the
        # feasible integer values (the path condition records the choice); repository modules themselves see the int shadow
        return concretize(sym_int(self))

    def __float__(self):
        raise TypeError("float() on a symbolic value reached a C boundary (unmodelled numpy/float path)")

    def __bool__(self):
        return bool(self != 0)

    def __round__(self, n=None):
        return sym_round(self, 0 if n is None else n)

    def rint(self):
        return sym_round(self, 0)

    # ---- math used through numpy object loops
    def sqrt(self):
        return SymNorm(self)

    def exp(self):
        return sym_exp(self)


class SymInt(SymReal):
    __slots__ = ()


def _real(e):
    return z3.ToReal(e) if e.sort() == z3.IntSort() else e


EXP = z3.Function("exp", z3.RealSort(), z3.RealSort())


def sym_exp(x):
    """exp as an uninterpreted function plus ground instances of true facts (sound over-approximation)."""
    if not isinstance(x, SymReal):
        return math.exp(x)
    c = Ctx.cur
    a = _real(x.e)
    y = EXP(a)
    c.solver.add(y > 0, y >= 1 + a, z3.Implies(a <= 0, y <= 1), z3.Implies(a >= 0, y >= 1), z3.Implies(a < 0, y < 1), z3.Implies(a == 0, y == 1))
    # tangent at -1, 1 (convexity): exp(a) >= e^t (1 + a - t) needs e: use rational lower bounds of e^t
    for t, lo in ((-1, Fraction(36787944, 100000000)), (1, Fraction(27182818, 10000000)), (-2, Fraction(13533528, 100000000))):
        c.solver.add(y >= lift_num(lo) * (1 + a - t))
    for b in c.exp_args:
        yb = EXP(b)
        c.solver.add(z3.Implies(a < b, y < yb), z3.Implies(b < a, yb < y))
    c.exp_args.append(a)
    c.model = None
    return SymReal(y)


LOG2 = z3.Function("log2", z3.RealSort(), z3.RealSort())


def sym_log2(x):
    """log2 of a symbolic positive real: the integer part is decided by forking (2^n <= x < 2^(n+1), n in [-40, 64)), the
    value itself is an uninterpreted term constrained to [n, n+1) (== n exactly at the power of two) and monotone in its
    argument - enough for int(log2(.)) / floor / ceil / comparisons with integers, which is how iteration counts are derived"""
    if not isinstance(x, SymReal):
        return math.log2(x)
    c = Ctx.cur
    a = _real(x.e)
    if not bool(SymBool(a > 0)):
        raise Abort("log2 of a non-positive value")
    for n in range(-40, 64):
        lo, hi = lift_num(Fraction(2) ** n), lift_num(Fraction(2) ** (n + 1))
        if bool(SymBool(z3.And(a >= lo, a < hi))):
            y = LOG2(a)
            c.solver.add(y >= n, y < n + 1, (y == n) == (a == lo))
            for b in getattr(c, "log_args", []):
                c.solver.add(z3.Implies(a < b, y < LOG2(b)), z3.Implies(b < a, LOG2(b) < y), z3.Implies(a == b, y == LOG2(b)))
            c.log_args = getattr(c, "log_args", []) + [a]
            c.model = None
            return SymReal(y)
    raise Abort("log2 outside the modelled range 2^-40 .. 2^64")


_CMP_KINDS = (z3.Z3_OP_LE, z3.Z3_OP_LT, z3.Z3_OP_GE, z3.Z3_OP_GT, z3.Z3_OP_EQ)


def _ite_cond_atoms(e, seen, out, in_cond=False):
    """arithmetic comparison atoms occurring inside the conditions of if-then-else terms of e"""
    if e.get_id() in seen and not in_cond:
        return
    seen.add(e.get_id())
    if not z3.is_app(e):
        return
    k = e.decl().kind()
    if in_cond and k in _CMP_KINDS and e.num_args() == 2 and e.arg(0).sort() != z3.BoolSort():
        out.append(e)
    if k == z3.Z3_OP_ITE and e.arg(1).sort() != z3.BoolSort():
        _ite_cond_atoms(e.arg(0), seen, out, True)
        _ite_cond_atoms(e.arg(1), seen, out, in_cond)
        _ite_cond_atoms(e.arg(2), seen, out, in_cond)
        return
    for ch in e.children():
        _ite_cond_atoms(ch, seen, out, in_cond)


def _uf_apps(e, f, seen, out):
    if e.get_id() in seen:
        return
    seen.add(e.get_id())
    for ch in e.children():
        _uf_apps(ch, f, seen, out)
    if z3.is_app(e) and e.decl().eq(f):
        out.append(e)


def abstract_uf(exprs, f):
    """replace applications of the unary uninterpreted function f by fresh variables, innermost first"""
    exprs = list(exprs)
    k = 0
    for _ in range(50):
        apps = []
        seen = set()
        for e in exprs:
            _uf_apps(e, f, seen, apps)
        if not apps:
            return exprs
        # innermost: argument contains no application of f
        inner = []
        for a in apps:
            sub = []
            _uf_apps(a.arg(0), f, set(), sub)
            if not sub:
                inner.append(a)
        pairs = []
        for a in inner:
            k += 1
            pairs.append((a, z3.Real("uf!%d" % k)))
        exprs = [z3.substitute(e, *pairs) for e in exprs]
    raise RuntimeError("abstract_uf: nesting too deep")


class SymNorm:
    """sqrt of a non-negative symbolic term, compared lazily as  L >= 0 /\\ sq <= L^2  (no sqrt variable)."""

    __slots__ = ("sq", "_m", "re", "im")

    def __init__(self, sq, re=None, im=None):
        self.sq = sq
        self._m = None
        self.re, self.im = re, im  # set when this is |re + i im| (lets harnesses weaken the cone constraint linearly)

    def __deepcopy__(self, memo):
        return self

    def __hash__(self):
        return 0

    def materialize(self):
        if self._m is None:
            c = Ctx.cur
            m = z3.Real(c.fresh_name("sqrt"))
            c.solver.add(m >= 0, m * m == toz3(self.sq))
            c.model = None
            self._m = SymReal(m)
        return self._m

    def _le(self, L, strict):
        # self <= L  (or <)
        if _is_inf(L):
            return L > 0
        if isinstance(L, SymNorm):
            return (self.sq < L.sq) if strict else (self.sq <= L.sq)
        l = toz3(L)
        s = toz3(self.sq)
        c = Ctx.cur
        if c is not None and c.cones is not None and self.re is not None:
            c.cones.append((self.re, self.im, L, strict))
        if strict:
            return SymBool(z3.And(l > 0, s < l * l))
        return SymBool(z3.And(l >= 0, s <= l * l))

    def __le__(self, o):
        return self._le(o, False)

    def __lt__(self, o):
        return self._le(o, True)

    def __ge__(self, o):
        r = self._le(o, True)
        return (not r) if isinstance(r, bool) else ~r

    def __gt__(self, o):
        r = self._le(o, False)
        return (not r) if isinstance(r, bool) else ~r

    def __eq__(self, o):
        return self.materialize() == o

    # arithmetic -> materialise
    def __add__(self, o):
        return self.materialize() + o

    __radd__ = __add__

    def __sub__(self, o):
        return self.materialize() - o

    def __rsub__(self, o):
        return o - self.materialize()

    def __mul__(self, o):
        return self.materialize() * o

    __rmul__ = __mul__

    def __truediv__(self, o):
        return self.materialize() / o

    def __rtruediv__(self, o):
        return o / self.materialize()

    def __neg__(self):
        return -self.materialize()

    def __abs__(self):
        return self

    def conjugate(self):
        return self

    def __repr__(self):
        return "SymNorm(sqrt %s)" % _short(self.sq)


class SymComplex:
    __slots__ = ("re", "im")

    def __init__(self, re, im):
        self.re, self.im = re, im

    def __deepcopy__(self, memo):
        return self

    def __hash__(self):
        return 0

    @staticmethod
    def lift(o):
        if isinstance(o, SymComplex):
            return o
        if isinstance(o, (complex, _np.complexfloating)):
            return SymComplex(float(o.real), float(o.imag))
        if isinstance(o, SymReal) or is_concrete_num(o):
            return SymComplex(o, 0)
        return None

    def __add__(self, o):
        o = SymComplex.lift(o)
        if o is None:
            return NotImplemented
        return SymComplex(self.re + o.re, self.im + o.im)

    __radd__ = __add__

    def __sub__(self, o):
        o = SymComplex.lift(o)
        if o is None:
            return NotImplemented
        return SymComplex(self.re - o.re, self.im - o.im)

    def __rsub__(self, o):
        o = SymComplex.lift(o)
        if o is None:
            return NotImplemented
        return SymComplex(o.re - self.re, o.im - self.im)

    def __mul__(self, o):
        o = SymComplex.lift(o)
        if o is None:
            return NotImplemented
        return SymComplex(self.re * o.re - self.im * o.im, self.re * o.im + self.im * o.re)

    __rmul__ = __mul__

    def __neg__(self):
        return SymComplex(-self.re, -self.im)

    def conjugate(self):
        return SymComplex(self.re, -self.im)

    @property
    def real(self):
        return self.re

    @property
    def imag(self):
        return self.im

    def __abs__(self):
        # |x + 0i| = |x| exactly: keeps single-phase networks linear
        if is_concrete_num(self.im) and self.im == 0:
            return abs(self.re)
        if is_concrete_num(self.re) and self.re == 0:
            return abs(self.im)
        s = self.re * self.re + self.im * self.im
        if isinstance(s, SymReal):
            return SymNorm(s, self.re, self.im)
        return math.sqrt(s)

    def __repr__(self):
        return "SymComplex(%r, %r)" % (self.re, self.im)


# --------------------------------------------------------------------------------------------
# merged builtins (ITE instead of fork)


def _flatten_args(a):
    if len(a) == 1 and not is_concrete_num(a[0]) and not isinstance(a[0], (SymReal, SymNorm)):
        return list(a[0])
    return list(a)


def sym_min(*a, **kw):
    xs = _flatten_args(a)
    if kw or not any(isinstance(x, (SymReal, SymNorm)) for x in xs):
        import builtins

        return builtins.min(*a, **kw)
    xs = [x for x in xs if not (_is_inf(x) and x > 0)]
    r = _num(xs[0])
    for x in xs[1:]:
        x = _num(x)
        r = _wrap(z3.If(_arith(x) < _arith(r), _arith(x), _arith(r)))
    return r


def sym_max(*a, **kw):
    xs = _flatten_args(a)
    if kw or not any(isinstance(x, (SymReal, SymNorm)) for x in xs):
        import builtins

        return builtins.max(*a, **kw)
    if any(_is_inf(x) and x > 0 for x in xs):
        return float("inf")
    xs = [x for x in xs if not _is_inf(x)]
    r = _num(xs[0])
    for x in xs[1:]:
        x = _num(x)
        r = _wrap(z3.If(_arith(x) > _arith(r), _arith(x), _arith(r)))
    return r


def sym_abs(x):
    if isinstance(x, (SymReal, SymComplex, SymNorm)):
        return abs(x)
    import builtins

    return builtins.abs(x)


def sym_sum(it, start=0):
    r = start
    for x in it:
        r = r + x
    return r


def sym_int(x, *a):
    """int(): truncation toward zero"""
    if isinstance(x, SymNorm):
        x = x.materialize()
    if isinstance(x, SymReal):
        if x.is_int():
            return x
        e = x.e
        return _wrap(z3.If(e >= 0, z3.ToInt(e), -z3.ToInt(-e)))
    import builtins

    return builtins.int(x, *a)


def sym_float(x=0.0):
    if isinstance(x, (SymReal, SymNorm)):
        return x
    import builtins

    return builtins.float(x)


def sym_ceil(x):
    if isinstance(x, SymReal):
        if x.is_int():
            return x
        return _wrap(-z3.ToInt(-x.e))
    return math.ceil(x)


def sym_round(x, decimals=0):
    """round half to even (Python round / numpy.round) at `decimals` decimal places, as an if-then-else term"""
    if not isinstance(x, SymReal):
        return round(x, decimals)
    scale = lift_num(Fraction(10) ** int(decimals))
    y = _real(x.e) * scale
    f = z3.ToInt(y)
    frac = y - z3.ToReal(f)
    half = lift_num(Fraction(1, 2))
    r = z3.If(frac < half, f, z3.If(frac > half, f + 1, z3.If(f % 2 == 0, f, f + 1)))
    if int(decimals) == 0:
        return _wrap(z3.ToReal(r))
    return _wrap(z3.ToReal(r) / scale)


def sym_floor(x):
    if isinstance(x, SymReal):
        if x.is_int():
            return x
        return _wrap(z3.ToInt(x.e))
    return math.floor(x)


# --------------------------------------------------------------------------------------------
# evaluation of (possibly symbolic) observations in a model


def eval_value(m, v):
    """evaluate a symbolic/concrete observation under z3 model m -> python number / nested list"""
    if isinstance(v, SymNorm):
        s = eval_value(m, v.sq)
        return math.sqrt(max(s, 0.0))
    if isinstance(v, SymReal):
        r = m.eval(v.e, model_completion=True)
        return _to_float(r)
    if isinstance(v, SymBool):
        return z3.is_true(m.eval(v.e, model_completion=True))
    if isinstance(v, SymComplex):
        return complex(eval_value(m, v.re), eval_value(m, v.im))
    if isinstance(v, _np.ndarray):
        return [eval_value(m, x) for x in v.tolist()]
    if isinstance(v, (list, tuple)):
        return [eval_value(m, x) for x in v]
    if isinstance(v, dict):
        return {str(k): eval_value(m, x) for k, x in v.items()}
    if isinstance(v, (_np.integer,)):
        return int(v)
    if isinstance(v, (_np.floating,)):
        return float(v)
    if isinstance(v, (_np.bool_,)):
        return bool(v)
    if isinstance(v, Prop):
        return z3.is_true(m.eval(v.z3(), model_completion=True)) if v.symbolic() else v.weak()
    return v


def _to_float(r):
    if z3.is_int_value(r):
        return r.as_long()
    if z3.is_rational_value(r):
        return float(Fraction(r.numerator_as_long(), r.denominator_as_long()))
    if z3.is_algebraic_value(r):
        a = r.approx(20)
        return float(Fraction(a.numerator_as_long(), a.denominator_as_long()))
    try:
        return float(str(r))
    except ValueError:
        return None


def plain(v):
    """concrete observation -> JSON-able python"""
    if isinstance(v, _np.ndarray):
        return [plain(x) for x in v.tolist()]
    if isinstance(v, (list, tuple)):
        return [plain(x) for x in v]
    if isinstance(v, dict):
        return {str(k): plain(x) for k, x in v.items()}
    if isinstance(v, _np.integer):
        return int(v)
    if isinstance(v, _np.floating):
        return float(v)
    if isinstance(v, _np.bool_):
        return bool(v)
    if isinstance(v, Fraction):
        return float(v)
    if isinstance(v, Prop):
        return v.weak()
    if isinstance(v, complex):
        return [v.real, v.imag]
    return v


def close(a, b, tol=1e-7):
    """structural approximate equality of two plain observations"""
    if isinstance(a, complex):
        a = [a.real, a.imag]
    if isinstance(b, complex):
        b = [b.real, b.imag]
    if isinstance(a, (list, tuple)) and isinstance(b, (list, tuple)):
        return len(a) == len(b) and all(close(x, y, tol) for x, y in zip(a, b))
    if isinstance(a, dict) and isinstance(b, dict):
        return a.keys() == b.keys() and all(close(a[k], b[k], tol) for k in a)
    if isinstance(a, bool) or isinstance(b, bool):
        return bool(a) == bool(b)
    if isinstance(a, (int, float)) and isinstance(b, (int, float)):
        if isinstance(a, float) and isinstance(b, float) and math.isnan(a) and math.isnan(b):
            return True
        if math.isinf(a) or math.isinf(b):
            return a == b
        return abs(a - b) <= tol * max(1.0, abs(a), abs(b))
    return a == b


# --------------------------------------------------------------------------------------------
# exploration


class PathResult:
    def __init__(self):
        self.trace = []
        self.status = "ok"  # ok | abort | exception
        self.exc = None
        self.obligations = []
        self.tags = []
        self.witness = None
        self.validated = None  # True / False / None (not attempted) / "diverged"
        self.val_detail = None
        self.nchecks = 0
        self.tcheck = 0.0
        self.unknown_branches = 0

    def as_dict(self):
        return dict(
            decisions=len(self.trace),
            status=self.status,
            exc=self.exc,
            obligations=[o.as_dict() for o in self.obligations],
            tags=self.tags,
            witness=self.witness,
            validated=self.validated,
            val_detail=self.val_detail,
        )


# ---- every path is an independent execution: mutable module-level / class-level containers of the repository's modules (caches,
# memo tables, registries filled at import) are put back to their state after import before each symbolic path and each concrete
# replay, as a fresh process would have them.  What a harness wants to observe across calls it does inside one path.
_GLOBALS_SNAPSHOT = {}
_GLOBALS_PREFIX = "acnportal"


def _mutable_slots():
    import collections.abc as _abc
    import weakref as _weakref

    kinds = (_abc.MutableMapping, _abc.MutableSequence, _abc.MutableSet, _weakref.WeakKeyDictionary, _weakref.WeakValueDictionary)
    for mname, m in list(_sys.modules.items()):
        if m is None or not (mname == _GLOBALS_PREFIX or mname.startswith(_GLOBALS_PREFIX + ".")) or ".tests" in mname:
            continue
        for k, v in list(vars(m).items()):
            if k.startswith("__"):
                continue
            if isinstance(v, kinds) and not isinstance(v, _np.ndarray):
                yield (mname, k), v
            elif isinstance(v, type) and getattr(v, "__module__", None) == mname:
                for ck, cv in list(vars(v).items()):
                    if not ck.startswith("__") and isinstance(cv, kinds) and not isinstance(cv, _np.ndarray):
                        yield (mname, k, ck), cv


def _copy_container(v):
    import collections.abc as _abc

    if isinstance(v, _abc.MutableMapping):
        return dict(v.items())
    return list(v)


def import_all_repo_modules():
    import importlib as _il
    import pkgutil as _pk

    try:
        pkg = _il.import_module(_GLOBALS_PREFIX)
    except Exception:
        return
    for mi in _pk.walk_packages(pkg.__path__, _GLOBALS_PREFIX + "."):
        if ".tests" in mi.name or mi.name.endswith(".tests"):
            continue
        try:
            _il.import_module(mi.name)
        except BaseException:
            pass


def restore_repo_globals():
    import collections.abc as _abc

    for key, v in _mutable_slots():
        if key not in _GLOBALS_SNAPSHOT:
            _GLOBALS_SNAPSHOT[key] = (v, _copy_container(v))
            continue
        obj, saved = _GLOBALS_SNAPSHOT[key]
        if obj is not v:  # rebound since the snapshot: keep the new object but give it the pristine contents
            _GLOBALS_SNAPSHOT[key] = (v, saved)
        try:
            if isinstance(v, _abc.MutableMapping):
                if len(v) != len(saved) or any(k not in v or v[k] is not saved[k] for k in saved):
                    v.clear()
                    v.update(saved)
            elif isinstance(v, _abc.MutableSet):
                if set(v) != set(saved):
                    v.clear()
                    v.update(saved)
            else:
                if len(v) != len(saved) or any(a is not b for a, b in zip(v, saved)):
                    v[:] = saved
        except Exception:
            pass


def run_path(harness, prefix, params, seed=0):
    restore_repo_globals()
    c = Ctx("sym", prefix=prefix, seed=seed)
    Ctx.cur = c
    pr = PathResult()
    sym_obs = None
    try:
        harness(c, **params)
        sym_obs = c.observations
    except Abort as a:
        pr.status = "abort"
        pr.exc = str(a)
    except AssumptionFailed as a:
        pr.status = "abort"
        pr.exc = "assumption " + str(a)
    except StubTargetMissing as e:
        pr.status = "stub_missing"
        pr.exc = str(e)
    except RecursionError as e:
        pr.status = "exception"
        pr.exc = "RecursionError"
    except Exception as e:  # repository code (or engine) raised on a feasible path
        pr.status = "exception"
        tb = traceback.extract_tb(e.__traceback__)
        where = ["%s:%d:%s" % (f.filename.split("/")[-1], f.lineno, f.name) for f in tb[-4:]]
        pr.exc = "%s: %s @ %s" % (type(e).__name__, str(e)[:200], " < ".join(reversed(where)))
    finally:
        c.unpatch_all()
    pr.trace = list(c.trace)
    pr.obligations = c.obligations
    pr.tags = c.tags + c.soft_tags
    pr.nchecks, pr.tcheck, pr.unknown_branches = c.nchecks, c.tcheck, c.unknown_branches
    return pr, c, sym_obs


def run_concrete(harness, assignment, params):
    """run the same harness on plain Python numbers; environment stubs marked sym_only are NOT installed"""
    restore_repo_globals()
    c = Ctx("conc", assignment=assignment)
    prev = Ctx.cur
    Ctx.cur = c
    out = dict(status="ok", exc=None)
    try:
        harness(c, **params)
    except AssumptionFailed as a:
        out["status"] = "assumption_failed"
        out["exc"] = str(a)
    except Abort as a:  # the harness cut this path (outside the claim): the replay is not usable either
        out["status"] = "assumption_failed"
        out["exc"] = "cut: " + str(a)
    except KeyError as e:
        if e.args and isinstance(e.args[0], str) and e.args[0] not in assignment and not c.obligations and _looks_like_input(e, assignment):
            out["status"] = "missing_input"
            out["exc"] = str(e)
        else:
            out["status"] = "exception"
            out["exc"] = _fmt_exc(e)
    except Exception as e:
        out["status"] = "exception"
        out["exc"] = _fmt_exc(e)
    finally:
        c.unpatch_all()
        Ctx.cur = prev
    out["obligations"] = c.obligations
    out["observations"] = {k: plain(v) for k, v in c.observations.items()}
    out["tags"] = c.tags
    return out


def _looks_like_input(e, assignment):
    tb = traceback.extract_tb(e.__traceback__)
    return any(f.filename.endswith("core.py") and f.name in ("real", "int", "choice") for f in tb[-2:])


def _fmt_exc(e):
    tb = traceback.extract_tb(e.__traceback__)
    where = ["%s:%d:%s" % (f.filename.split("/")[-1], f.lineno, f.name) for f in tb[-4:]]
    return "%s: %s @ %s" % (type(e).__name__, str(e)[:200], " < ".join(reversed(where)))


def strengthen(e, eps, pos=True):
    """a formula implying e in which every real-sorted inequality holds with margin eps (used to pick path witnesses
    away from branch boundaries, where float replay would be decided by rounding)"""
    k = e.decl().kind() if z3.is_app(e) else None
    if k == z3.Z3_OP_NOT:
        return z3.Not(strengthen(e.arg(0), eps, not pos))
    if k in (z3.Z3_OP_AND, z3.Z3_OP_OR):
        f = z3.And if k == z3.Z3_OP_AND else z3.Or
        return f(*[strengthen(c, eps, pos) for c in e.children()])
    if k == z3.Z3_OP_IMPLIES:
        return z3.Implies(strengthen(e.arg(0), eps, not pos), strengthen(e.arg(1), eps, pos))
    if k in (z3.Z3_OP_LE, z3.Z3_OP_LT, z3.Z3_OP_GE, z3.Z3_OP_GT) and e.arg(0).sort() == z3.RealSort():
        a, b = e.arg(0), e.arg(1)
        if k in (z3.Z3_OP_GE, z3.Z3_OP_GT):
            a, b = b, a  # a <= b / a < b
        d = z3.RealVal(eps)
        # positive occurrence: require a + eps <= b ; negative occurrence (we want NOT e with margin): e' = a <= b + eps
        return (a + d <= b) if pos else (a <= b + d if k in (z3.Z3_OP_LE, z3.Z3_OP_GE) else a < b + d)
    return e


def interior_model(c, eps="1/100000"):
    """a model of the path condition in which as many real inequalities as possible hold with margin eps (greedy)"""
    try:
        s = z3.Solver()
        s.set("timeout", 1000)
        orig = list(c.solver.assertions())
        s.add(*orig)
        n = 0
        thin = False
        for a in orig[::-1]:  # latest decisions first: they are the ones closest to the observed outputs
            st = strengthen(a, eps)
            if st.eq(a):
                continue
            n += 1
            if n > 200:
                break
            s.push()
            s.add(st)
            if s.check() != z3.sat:
                s.pop()
                thin = True
        if s.check() == z3.sat:
            return s.model(), thin
    except z3.Z3Exception:
        pass
    return None, True


def explore(harness, params=None, max_paths=20000, timeout=600.0, validate=True, seed=0, stop_on_violation=False):
    """DFS over all feasible paths of harness(cx, **params)."""
    params = params or {}
    if not _GLOBALS_SNAPSHOT:
        import_all_repo_modules()  # so that the first snapshot is the state after import
        restore_repo_globals()
    stack = [[]]
    t0 = time.time()
    results = []
    stats = dict(paths=0, checks=0, solver_s=0.0, decisions=0, incomplete=False, unknown_branches=0)
    while stack:
        if stats["paths"] >= max_paths or time.time() - t0 > timeout:
            stats["incomplete"] = True
            break
        prefix = stack.pop()
        pr, c, sym_obs = run_path(harness, prefix, params, seed)
        stats["paths"] += 1
        stats["checks"] += pr.nchecks
        stats["solver_s"] += pr.tcheck
        stats["decisions"] += len(pr.trace)
        stats["unknown_branches"] += pr.unknown_branches
        for i in range(len(prefix), len(pr.trace)):
            d, forked = pr.trace[i]
            if forked:
                stack.append([x[0] for x in pr.trace[:i]] + [not d])
        if pr.status in ("ok", "exception"):
            # witness + validation against the unpatched implementation
            try:
                r = c._check(timeout=5000)
                stats["checks"] += 1
            except z3.Z3Exception:
                r = z3.unknown
            if r == z3.unknown and (pr.status == "exception" or pr.unknown_branches):
                # a path that went through branches of unknown feasibility (solver time-outs, e.g. on a loaded machine) and ended
                # in an exception or without a witness: decide its feasibility with a long time-out before it is reported
                try:
                    r = c._check(timeout=90000)
                    stats["checks"] += 1
                except z3.Z3Exception:
                    r = z3.unknown
            if r == z3.sat:
                m = c.solver.model()
                pr.witness = c.model_assignment(m)
                if validate:
                    _validate_path(harness, params, pr, c, m, sym_obs)
                    if pr.validated is not True and not c.exp_args:
                        # the default model tends to sit on a branch boundary; retry with an interior witness
                        m2, thin = interior_model(c)
                        if m2 is not None:
                            pr.witness = c.model_assignment(m2)
                            pr.val_detail = None
                            _validate_path(harness, params, pr, c, m2, sym_obs)
                        if pr.validated is False and thin:
                            # the path is only feasible ON a branch boundary (no witness with margin exists): the float
                            # replay is decided by rounding there, which is outside the claim -> not an engine disagreement
                            pr.validated = "diverged"
                            pr.val_detail = "boundary path (no interior witness): " + (pr.val_detail or "")
            elif r == z3.unsat:
                pr.status = "abort"
                pr.exc = "path condition unsat at end"
        results.append(pr)
        if stop_on_violation and any(o.status == "sat" for o in pr.obligations):
            stats["incomplete"] = bool(stack)
            break
    stats["wall_s"] = time.time() - t0
    return results, stats


def _validate_path(harness, params, pr, c, m, sym_obs):
    conc = run_concrete(harness, pr.witness, params)
    if pr.status == "exception":
        # symbolic path raised: the implementation must raise the same exception type concretely
        if conc["status"] == "exception" and conc["exc"].split(":")[0] == pr.exc.split(":")[0]:
            pr.validated = True
        else:
            pr.validated = False
            pr.val_detail = "symbolic path raised %s; concrete run: %s %s" % (pr.exc, conc["status"], conc["exc"])
        return
    if conc["status"] != "ok":
        pr.validated = "diverged"
        pr.val_detail = "%s %s" % (conc["status"], conc["exc"])
        return
    exp = {k: plain(eval_value(m, v)) for k, v in (sym_obs or {}).items()}
    got = conc["observations"]
    if exp.keys() != got.keys() or c.tags != conc["tags"]:
        pr.validated = "diverged"
        pr.val_detail = "different tags/observation keys (boundary model): %s vs %s" % (c.tags[:6], conc["tags"][:6])
        return
    if c.exp_args:
        # exp is an uninterpreted function on this path: the model's exp values are not the real ones, so
        # numeric observations cannot be compared; the replay validates structure (same branches, same
        # observation keys) and that every obligation also holds on the implementation for this input.
        if all(o.status == "holds" for o in conc["obligations"]):
            pr.validated = True
            pr.val_detail = "structural (exp abstracted)"
        else:
            pr.validated = "diverged"
            pr.val_detail = "concrete obligation failed on exp-abstracted path (model of UF exp is not exp)"
        return
    bad = [k for k in exp if not close(exp[k], got[k], 1e-6)]
    if bad:
        pr.validated = False
        k = bad[0]
        pr.val_detail = "observation %s: symbolic %r vs implementation %r" % (k, exp[k], got[k])
    else:
        pr.validated = True
