"""Environment model: proxies rebound into the *module globals* of repository modules.

No repository source is edited: Python resolves module globals before builtins, so `battery.min = sym_min`
makes the repository's own `min([...])` call build an ITE term. Every stub listed here is part of the claim.
"""
from fractions import Fraction
import builtins
import importlib
import types

import numpy as real_np
import z3

from . import core
from .core import SymReal, SymBool, SymNorm, SymComplex, sym_min, sym_max, sym_abs, sym_int, sym_float, sym_sum, sym_exp, is_sym


def _has_sym(x):
    if is_sym(x):
        return True
    if isinstance(x, real_np.ndarray):
        return x.dtype == object
    if isinstance(x, (list, tuple)):
        return any(_has_sym(y) for y in x)
    return False


class SymArray(real_np.ndarray):
    """object ndarray whose astype(float/complex) is the identity (values stay exact symbolic reals/complexes)"""

    def astype(self, dtype, *a, **k):
        if self.dtype == object and real_np.dtype(dtype).kind in "fc":
            return self
        return real_np.ndarray.astype(self, dtype, *a, **k)

    def __array_wrap__(self, arr, context=None, return_scalar=False):
        # reductions must yield the scalar element (as for plain ndarrays), not a 0-d subclass instance
        if isinstance(arr, real_np.ndarray) and arr.ndim == 0:
            return arr[()]
        if isinstance(arr, real_np.ndarray) and arr.dtype != object:
            return arr.view(real_np.ndarray)
        return arr.view(SymArray) if isinstance(arr, real_np.ndarray) else arr


def _cmp_obj(op):
    uf = {"ge": real_np.greater_equal, "le": real_np.less_equal, "gt": real_np.greater, "lt": real_np.less}[op]

    def f(self, other):
        if self.dtype == object or (isinstance(other, real_np.ndarray) and other.dtype == object) or is_sym(other):
            # elementwise comparison WITHOUT converting each result to bool (no fork per element): the consumer
            # (np.all / np.any in the proxy) builds one conjunction / disjunction
            r = uf(real_np.asarray(self), real_np.asarray(other) if isinstance(other, real_np.ndarray) else other, dtype=object)
            return r.view(real_np.ndarray)
        return uf(real_np.asarray(self), other)

    return f


class CmpArray(SymArray):
    """result of np.tile / np.linalg.norm in repository modules: the operands of the feasibility comparisons.
    Its ordering comparisons return object arrays of symbolic booleans instead of forking once per element."""

    __ge__ = _cmp_obj("ge")
    __le__ = _cmp_obj("le")
    __gt__ = _cmp_obj("gt")
    __lt__ = _cmp_obj("lt")


class _Linalg:
    def __getattr__(self, k):
        return getattr(real_np.linalg, k)

    def norm(self, x, *a, **k):
        r = real_np.linalg.norm(x, *a, **k)
        if isinstance(r, real_np.ndarray) and r.dtype == object:
            return r.view(CmpArray)
        return r


def _symview(r):
    if isinstance(r, real_np.ndarray) and r.dtype == object and not isinstance(r, SymArray):
        return r.view(SymArray)
    return r


def _objectify(r):
    if isinstance(r, real_np.ndarray) and r.dtype.kind in "iuf":
        return r.astype(object).view(SymArray)
    if isinstance(r, real_np.ndarray) and r.dtype == object and not isinstance(r, SymArray):
        return r.view(SymArray)
    return r


_umin = real_np.frompyfunc(lambda a, b: sym_min(a, b), 2, 1)
_umax = real_np.frompyfunc(lambda a, b: sym_max(a, b), 2, 1)


def _isclose1(a, b, rtol, atol):
    if not (is_sym(a) or is_sym(b) or is_sym(rtol) or is_sym(atol)):
        return bool(real_np.isclose(float(a), float(b), rtol=rtol, atol=atol))
    d = sym_abs(a - b)
    return d <= atol + rtol * sym_abs(b)


class _Random:
    """np.random / random replacement: every draw is a fresh nondeterministic input"""

    def __init__(self, real):
        self._real = real
        self.n = 0

    def __getattr__(self, k):
        return getattr(self._real, k)

    def normal(self, loc=0.0, scale=1.0, size=None):
        cx = core.Ctx.cur
        self.n += 1
        assert size is None
        return cx.real("noise%d" % self.n)

    def choice(self, seq):
        cx = core.Ctx.cur
        self.n += 1
        seq = list(seq)
        return cx.choice("choice%d" % self.n, seq)


class NPProxy(types.ModuleType):
    """numpy as seen by repository modules during symbolic runs"""

    def __init__(self):
        super().__init__("np_proxy")
        self.random = _Random(real_np.random)
        self.linalg = _Linalg()
        self.ndarray = real_np.ndarray

    def __getattr__(self, k):
        return getattr(real_np, k)

    # -- constructors produce object arrays so that later symbolic writes succeed
    def zeros(self, shape, dtype=None, **kw):
        if dtype is not None and real_np.dtype(dtype).kind in "iub":
            return real_np.zeros(shape, dtype=dtype, **kw)
        a = real_np.empty(shape, dtype=object)
        a.fill(0)
        return a.view(SymArray)

    def ones(self, shape, dtype=None, **kw):
        if dtype is not None and real_np.dtype(dtype).kind in "iub":
            return real_np.ones(shape, dtype=dtype, **kw)
        a = real_np.empty(shape, dtype=object)
        a.fill(1)
        return a.view(SymArray)

    def full(self, shape, fill_value, dtype=None, **kw):
        a = real_np.empty(shape, dtype=object)
        a.fill(fill_value)
        return a.view(SymArray)

    def array(self, x, *a, **k):
        if k.get("dtype") is not None or a:
            return real_np.array(x, *a, **k)
        return _objectify(real_np.array(x, **k))

    def _floatify(self, x):
        if isinstance(x, real_np.ndarray) and x.dtype == object:
            if any(is_sym(v) for v in x.ravel()):
                raise TypeError("symbolic angle reached a trigonometric function (unmodelled)")
            return real_np.array(x.tolist(), dtype=float)  # (SymArray.astype(float) is the identity)
        return x

    def deg2rad(self, x):
        return real_np.deg2rad(self._floatify(x))

    def cos(self, x):
        return real_np.cos(self._floatify(x))

    def sin(self, x):
        return real_np.sin(self._floatify(x))

    def tile(self, a, reps):
        r = real_np.tile(a, reps)
        if isinstance(r, real_np.ndarray) and r.dtype == object:
            return r.view(CmpArray)
        return r

    def isscalar(self, x):
        return is_sym(x) or real_np.isscalar(x)

    def isclose(self, a, b, rtol=1e-05, atol=1e-08, equal_nan=False):
        if not (_has_sym(a) or _has_sym(b) or is_sym(rtol) or is_sym(atol)):
            return real_np.isclose(a, b, rtol=rtol, atol=atol)
        if isinstance(a, (list, tuple, real_np.ndarray)) or isinstance(b, (list, tuple, real_np.ndarray)):
            f = real_np.frompyfunc(lambda x, y: _isclose1(x, y, rtol, atol), 2, 1)
            return f(real_np.array(a, dtype=object), real_np.array(b, dtype=object))
        return _isclose1(a, b, rtol, atol)

    def any(self, a, *args, **kw):
        if isinstance(a, real_np.ndarray) and a.dtype == object and not args and not kw:
            flat = list(a.ravel())
            if any(isinstance(x, SymBool) for x in flat):
                return SymBool(z3.Or(*[core.toz3(x) for x in flat]))
        elif isinstance(a, SymBool):
            return a
        return real_np.any(a, *args, **kw)

    def all(self, a, *args, **kw):
        if isinstance(a, real_np.ndarray) and a.dtype == object and not args and not kw:
            flat = list(a.ravel())
            if any(isinstance(x, SymBool) for x in flat):
                return SymBool(z3.And(*[core.toz3(x) for x in flat]))
        elif isinstance(a, SymBool):
            return a
        return real_np.all(a, *args, **kw)

    def minimum(self, a, b):
        if _has_sym(a) or _has_sym(b):
            return _umin(a, b)
        return real_np.minimum(a, b)

    def maximum(self, a, b):
        if _has_sym(a) or _has_sym(b):
            return _umax(a, b)
        return real_np.maximum(a, b)

    def clip(self, a, a_min=None, a_max=None):
        if _has_sym(a) or _has_sym(a_min) or _has_sym(a_max):
            r = a
            if a_min is not None:
                r = self.maximum(r, a_min)
            if a_max is not None:
                r = self.minimum(r, a_max)
            return r
        return real_np.clip(a, a_min, a_max)

    def exp(self, x):
        if isinstance(x, SymReal):
            return sym_exp(x)
        return real_np.exp(x)

    def sqrt(self, x):
        if isinstance(x, SymReal):
            return SymNorm(x)
        return real_np.sqrt(x)

    def round(self, a, decimals=0, out=None):
        if isinstance(a, SymNorm):
            a = a.materialize()
        if isinstance(a, SymReal):
            return core.sym_round(a, decimals)
        if isinstance(a, real_np.ndarray) and a.dtype == object:
            res = real_np.empty(a.shape, dtype=object)
            for idx in real_np.ndindex(a.shape):
                v = a[idx]
                res[idx] = core.sym_round(v, decimals) if isinstance(v, SymReal) else round(v, decimals)
            return res
        return real_np.round(a, decimals)

    around = round

    def ceil(self, x):
        if isinstance(x, SymNorm):
            x = x.materialize()
        if isinstance(x, SymReal):
            return core.sym_ceil(x)
        return real_np.ceil(x)

    def floor(self, x):
        if isinstance(x, SymNorm):
            x = x.materialize()
        if isinstance(x, SymReal):
            return core.sym_floor(x)
        return real_np.floor(x)

    def log2(self, x):
        if isinstance(x, SymNorm):
            x = x.materialize()
        if isinstance(x, SymReal):
            return core.sym_log2(x)
        return real_np.log2(x)

    def abs(self, x):
        if is_sym(x):
            return abs(x)
        return _symview(real_np.abs(x))

    def sum(self, a, *args, **kw):
        return real_np.sum(a, *args, **kw)

    def max(self, a, axis=None, **kw):
        if isinstance(a, real_np.ndarray) and a.dtype == object:
            if axis is None:
                return sym_max(list(a.ravel()))
            return real_np.apply_along_axis(lambda v: sym_max(list(v)), axis, a)
        return real_np.max(a, axis=axis, **kw)

    def min(self, a, axis=None, **kw):
        if isinstance(a, real_np.ndarray) and a.dtype == object:
            if axis is None:
                return sym_min(list(a.ravel()))
            return real_np.apply_along_axis(lambda v: sym_min(list(v)), axis, a)
        return real_np.min(a, axis=axis, **kw)

    def arange(self, start, stop=None, step=1, **kw):
        if stop is None:
            start, stop = 0, start
        if not (is_sym(start) or is_sym(stop) or is_sym(step)):
            return real_np.arange(start, stop, step, **kw)
        # length n = ceil((stop-start)/step), concretised by forking
        out = []
        k = 0
        while k < 64:
            v = start + k * step
            if bool(v < stop):
                out.append(v)
                k += 1
            else:
                break
        else:
            raise core.Abort("arange too long")
        a = real_np.empty(len(out), dtype=object)
        for i, v in enumerate(out):
            a[i] = v
        return a


class _IntShadow(int):
    """stands for the builtin int in repository modules: still a type (isinstance / dtype= keep working), calls go to sym_int"""

    def __new__(cls, x=0, *a):
        return sym_int(x, *a)


class _FloatShadow(float):
    def __new__(cls, x=0.0):
        return sym_float(x)


BUILTIN_SHADOWS = {
    "min": sym_min,
    "max": sym_max,
    "abs": sym_abs,
    "sum": sym_sum,
    "int": _IntShadow,
    "float": _FloatShadow,
}


def mod(name):
    return importlib.import_module(name)


NP_MODULES = [
    "acnportal.acnsim.simulator",
    "acnportal.acnsim.interface",
    "acnportal.acnsim.network.charging_network",
    "acnportal.acnsim.models.battery",
    "acnportal.acnsim.models.evse",
    "acnportal.acnsim.analysis",
    "acnportal.algorithms.sorted_algorithms",
    "acnportal.algorithms.preprocessing",
    "acnportal.algorithms.postprocessing",
    "acnportal.algorithms.utils",
    "acnportal.algorithms.upper_bound_estimator",
]

SHADOWS = {
    "acnportal.acnsim.simulator": ["max", "min", "abs", "int", "float"],
    "acnportal.acnsim.interface": ["max", "min", "abs", "int", "float"],
    "acnportal.acnsim.models.battery": ["min", "max", "abs", "int", "float"],
    "acnportal.acnsim.models.evse": ["min", "max", "abs", "int", "float"],
    "acnportal.acnsim.models.ev": ["min", "max", "abs", "int", "float"],
    "acnportal.acnsim.network.charging_network": ["min", "max", "abs", "int", "float"],
    "acnportal.acnsim.analysis": ["sum", "min", "max", "abs", "int", "float"],
    "acnportal.algorithms.sorted_algorithms": ["min", "max", "abs", "int", "float"],
    "acnportal.algorithms.preprocessing": ["min", "max", "abs", "int", "float"],
    "acnportal.algorithms.postprocessing": ["min", "max", "abs", "int", "float"],
    "acnportal.algorithms.utils": ["min", "max", "abs", "int", "float"],
    "acnportal.algorithms.upper_bound_estimator": ["float", "int", "min", "max", "abs"],
}


def install(cx, np_modules=None, shadows=None, random_everywhere=True):
    """Install the symbolic environment into repository modules (symbolic mode), and the
    nondeterministic-input stubs (np.random.normal) in both modes."""
    proxy = NPProxy()
    np_modules = NP_MODULES if np_modules is None else np_modules
    shadows = SHADOWS if shadows is None else shadows
    for name in np_modules:
        m = mod(name)
        cx.patch(m, "np", proxy, sym_only=True)
    for name, names in shadows.items():
        m = mod(name)
        for n in names:
            cx.patch(m, n, BUILTIN_SHADOWS[n], sym_only=True, must_exist=False)
    return proxy


class RandomInputs:
    """np.random.normal as an input in BOTH modes (noise draw is part of the quantified input)"""

    def __init__(self, cx, real_module):
        self.cx, self.real, self.n = cx, real_module, 0
        self.random = _Random(real_np.random)

    def __getattr__(self, k):
        return getattr(self.real, k)


def install_noise(cx, module_name="acnportal.acnsim.models.battery"):
    """battery's `np.random.normal` -> fresh input (both modes).  In symbolic mode the proxy installed
    by install() already does this; in concrete mode wrap the real numpy."""
    if cx.mode == "conc":
        m = mod(module_name)
        cx.patch(m, "np", RandomInputs(cx, real_np), sym_only=False)


# ---- JSON round trip on (possibly symbolic) registries -----------------------------------------


def json_roundtrip(o, sort_keys=False):
    """json.loads(json.dumps(o, cls=NpEncoder, sort_keys=...)) with identity on numeric leaves (symbolic or not).
    Container semantics of JSON are kept: tuple->list, dict keys->str (insertion order, or sorted with sort_keys),
    ndarray->list, np scalars->python."""
    if is_sym(o):
        return o
    if isinstance(o, real_np.ndarray):
        return json_roundtrip(o.tolist(), sort_keys)
    if isinstance(o, real_np.integer):
        return int(o)
    if isinstance(o, real_np.floating):
        return float(o)
    if isinstance(o, real_np.bool_):
        return bool(o)
    if isinstance(o, dict):
        out = {}
        for k, v in o.items():
            if isinstance(k, bool):
                k = "true" if k else "false"
            elif k is None:
                k = "null"
            elif isinstance(k, (int, float)):
                k = repr(k) if isinstance(k, float) else str(k)
            elif not isinstance(k, str):
                raise TypeError("keys must be str, int, float, bool or None")
            out[k] = json_roundtrip(v, sort_keys)
        if sort_keys:
            out = {k: out[k] for k in sorted(out)}
        return out
    if isinstance(o, (list, tuple)):
        return [json_roundtrip(v, sort_keys) for v in o]
    if o is None or isinstance(o, (bool, int, float, str)):
        return o
    raise TypeError("Object of type %s is not JSON serializable" % type(o).__name__)


# ---- json module proxy for acnportal.acnsim.base (public to_json()/from_json() on symbolic state) ----------


class JsonToken(str):
    """the 'string' produced by the json proxy: carries the round-tripped structure instead of text"""

    data = None


class JsonProxy(types.ModuleType):
    def __init__(self, real):
        super().__init__("json_proxy")
        self._real = real
        self.n = 0
        self.docs = {}

    def __getattr__(self, k):
        return getattr(self._real, k)

    def dump(self, o, fp, cls=None, **kw):
        """file form: a marker text goes into the (real) file or buffer, the structure stays in the proxy's document table"""
        t = self.dumps(o, cls=cls, **kw)
        fp.write(str.__str__(t))

    def load(self, fp, **kw):
        return self.loads(fp.read(), **kw)

    def dumps(self, o, cls=None, **kw):
        self.n += 1
        t = JsonToken("{\"symbolic-json-document\": %d}" % self.n)
        unknown = set(kw) - {"sort_keys", "indent", "separators", "ensure_ascii", "allow_nan", "default"}
        if unknown:
            raise TypeError("json proxy: unmodelled dumps() options %s" % sorted(unknown))
        t.data = json_roundtrip(o, sort_keys=bool(kw.get("sort_keys")))
        self.docs[self.n] = t.data
        return t

    def loads(self, s, **kw):
        if isinstance(s, JsonToken):
            return json_roundtrip(s.data)  # fresh containers on every load
        r = self._real.loads(s, **kw)
        if isinstance(r, dict) and list(r.keys()) == ["symbolic-json-document"] and r["symbolic-json-document"] in self.docs:
            return json_roundtrip(self.docs[r["symbolic-json-document"]])  # marker text read back from a file / buffer
        return r


def install_json(cx):
    """acnportal.acnsim.base.json -> structural model of dumps/loads (symbolic mode only); concrete replays use the real json"""
    import json as real_json

    base = mod("acnportal.acnsim.base")
    cx.patch(base, "json", JsonProxy(real_json), sym_only=True)


# ---- calendar model: datetime / timedelta / Decimal as seen by tou_tariff, interface, analysis ----------------------------
#
# A SymDateTime is (leap flag of its year, weekday of 1 January, 0-based day of year, second of day) - all SymInts - with
# month / day / weekday / hour / minute / second derived by linear integer arithmetic over the Gregorian month table.
# Adding a (non-negative) timedelta may cross ONE new year; the next year's type follows from the calendar
# (weekday of its 1 January = old + 365 + leap mod 7; its leap flag is the declared input `leap_next`, never two leap
# years in a row).  In concrete replays the same inputs are turned into a REAL datetime of a matching year.

_CUM = [0, 31, 59, 90, 120, 151, 181, 212, 243, 273, 304, 334, 365]  # non-leap cumulative days before month m+1


def _year_for(leap, jan1, leap_next):
    import calendar
    import datetime as _dt

    for y in range(1970, 2100):
        if int(calendar.isleap(y)) == leap and _dt.date(y, 1, 1).weekday() == jan1 and int(calendar.isleap(y + 1)) == leap_next:
            return y
    raise core.AssumptionFailed("no year of type %s" % ((leap, jan1, leap_next),))


def _divmod_const(x, k):
    """(x div k, x mod k) for a constant k > 0 through fresh integer variables (much cheaper for z3 than div/mod terms)"""
    if not is_sym(x):
        return x // k, x % k
    cx = core.Ctx.cur
    qv = z3.Int(cx.fresh_name("q"))
    rv = z3.Int(cx.fresh_name("r"))
    cx.solver.add(core.toz3(x) == k * qv + rv, rv >= 0, rv < k)
    cx.model = None
    return core.SymInt(qv), core.SymInt(rv)


class SymTimedelta:
    __slots__ = ("secs",)

    def __init__(self, days=0, seconds=0, microseconds=0, milliseconds=0, minutes=0, hours=0, weeks=0):
        if not (isinstance(microseconds, int) and microseconds == 0 and isinstance(milliseconds, int) and milliseconds == 0):
            raise TypeError("sub-second timedelta is not modelled")
        self.secs = ((weeks * 7 + days) * 24 + hours) * 3600 + minutes * 60 + seconds

    @staticmethod
    def of(secs):
        t = SymTimedelta()
        t.secs = secs
        return t

    def __mul__(self, k):
        return SymTimedelta.of(self.secs * k)

    __rmul__ = __mul__

    def __add__(self, o):
        if isinstance(o, SymTimedelta):
            return SymTimedelta.of(self.secs + o.secs)
        return NotImplemented

    def __neg__(self):
        return SymTimedelta.of(-self.secs)

    def total_seconds(self):
        return self.secs

    def __deepcopy__(self, memo):
        return self


class SymDateTime:
    """naive calendar instant; see the module comment above"""

    def __init__(self, leap, jan1, doy, sod, leap_next, wraps=0):
        self.leap, self.jan1, self.doy, self.sod, self.leap_next, self.wraps = leap, jan1, doy, sod, leap_next, wraps
        self._hms = self._md = self._wd = None

    def _fields(self):
        if self._hms is None:
            mod_, sec = _divmod_const(self.sod, 60)
            hour, minute = _divmod_const(mod_, 60)
            self._hms = (hour, minute, sec)
        return self._hms

    # ---- derived fields
    def _cum(self, m):
        return _CUM[m] + (self.leap if m >= 2 else 0)

    def _monthday(self):
        if self._md is None:
            r = 1
            d = self.doy + 1
            for m in range(1, 12):
                dim = _CUM[m] - _CUM[m - 1] + (self.leap if m == 2 else 0)
                c = core.ge(self.doy, self._cum(m))
                r = r + core.ite(c, 1, 0)
                d = d - core.ite(c, dim, 0)
            self._md = (r, d)
        return self._md

    @property
    def month(self):
        return self._monthday()[0]

    @property
    def day(self):
        return self._monthday()[1]

    def weekday(self):
        if self._wd is None:
            self._wd = _divmod_const(self.jan1 + self.doy, 7)[1]
        return self._wd

    def isoweekday(self):
        return self.weekday() + 1

    @property
    def hour(self):
        return self._fields()[0]

    @property
    def minute(self):
        return self._fields()[1]

    @property
    def second(self):
        return self._fields()[2]

    @property
    def microsecond(self):
        return 0

    @property
    def tzinfo(self):
        return None

    def replace(self, **kw):
        if set(kw) - {"tzinfo"}:
            raise TypeError("SymDateTime.replace: only tzinfo is modelled")
        return self

    def timetuple(self):
        import types as _t

        h, m_, s_ = self._fields()
        return _t.SimpleNamespace(tm_mon=self.month, tm_mday=self.day, tm_hour=h, tm_min=m_, tm_sec=s_, tm_wday=self.weekday(), tm_yday=self.doy + 1, tm_isdst=-1)

    def date(self):
        return SymDateTime(self.leap, self.jan1, self.doy, 0, self.leap_next, self.wraps)

    def time(self):
        raise TypeError("SymDateTime.time() is not modelled")

    def __add__(self, td):
        import numpy as _rnp
        import datetime as _rdt

        if isinstance(td, _rnp.ndarray) and td.dtype.kind == "m":
            # datetime64 + array of timedelta64 (vectorised date arithmetic): elementwise, exact to the microsecond
            out = _rnp.empty(td.shape, dtype=object)
            for idx in _rnp.ndindex(td.shape):
                out[idx] = self + td[idx]
            return out
        if isinstance(td, _rnp.timedelta64):
            us = int(td.astype("timedelta64[us]").astype("int64"))
            td = SymTimedelta.of(core.lift_num(Fraction(us, 10 ** 6)) if us % 10 ** 6 else us // 10 ** 6)
        elif isinstance(td, _rdt.timedelta):
            td = SymTimedelta.of(td.days * 86400 + td.seconds if not td.microseconds else Fraction(td.days * 86400 * 10 ** 6 + td.seconds * 10 ** 6 + td.microseconds, 10 ** 6))
        if not isinstance(td, SymTimedelta):
            return NotImplemented
        cx = core.Ctx.cur
        total = self.sod + td.secs
        dd, sod = _divmod_const(total, 86400)
        doy = self.doy + dd
        ylen = 365 + self.leap
        # the harness bounds deltas so that at most one new year is crossed, forwards
        cx.assume(core.and_(core.ge(td.secs, 0), core.lt(doy - ylen, 365)))
        wrap = core.ge(doy, ylen)
        return SymDateTime(core.ite(wrap, self.leap_next, self.leap), core.ite(wrap, _divmod_const(self.jan1 + ylen, 7)[1], self.jan1),
                           core.ite(wrap, doy - ylen, doy), sod, core.ite(wrap, 0, self.leap_next), self.wraps + 1)

    __radd__ = __add__

    def __sub__(self, o):
        if isinstance(o, SymTimedelta):
            return self + (-o)
        return NotImplemented

    def __deepcopy__(self, memo):
        return self

    def __format__(self, spec):
        return "<symbolic datetime>"

    __str__ = __repr__ = lambda self: "<symbolic datetime>"


def make_datetime(cx, prefix="dt", doy_range=None, sod_range=None, jan1_in=None):
    """declares the calendar inputs; returns a SymDateTime (symbolic mode) or the matching real datetime (concrete replay)"""
    import datetime as _dt

    leap = cx.int(prefix + "_leap", 0, 1)
    jan1 = cx.int(prefix + "_jan1wd", 0, 6)
    doy = cx.int(prefix + "_doy", *(doy_range or (0, 365)))
    sod = cx.int(prefix + "_sod", *(sod_range or (0, 86399)))
    leap_next = cx.int(prefix + "_leap_next", 0, 1)
    cx.assume(core.and_(core.le(doy, 364 + leap), core.le(leap + leap_next, 1)))
    if jan1_in is not None:
        cx.assume(core.or_(*[core.eq(jan1, j) for j in jan1_in]))
    if cx.mode == "conc":
        y = _year_for(leap, jan1, leap_next)
        return _dt.datetime(y, 1, 1) + _dt.timedelta(days=doy, seconds=sod)
    return SymDateTime(leap, jan1, doy, sod, leap_next)


def dt_fields(dt):
    """(month, day, weekday, second of day) of a SymDateTime or a real datetime - used by oracles"""
    if isinstance(dt, SymDateTime):
        return dt.month, dt.day, dt.weekday(), dt.sod
    return dt.month, dt.day, dt.weekday(), dt.hour * 3600 + dt.minute * 60 + dt.second


def dt_shift(dt, secs):
    """oracle-side shift by a number of seconds (SymDateTime or real datetime)"""
    import datetime as _dt

    if isinstance(dt, SymDateTime):
        return dt + SymTimedelta.of(secs)
    return dt + _dt.timedelta(seconds=secs)


def dt_later_year(a, b):
    """True iff instant b lies in a later calendar year than a (b = a + delta); forks in symbolic mode"""
    if isinstance(b, SymDateTime):
        return b.wraps > a.wraps and bool(b.doy < a.doy)  # deltas are < 365 days
    return b.year > a.year


def sym_decimal(x=0):
    """Decimal as an exact rational (tou_tariff): breakpoints are exactly representable; symbolic values pass through"""
    import fractions

    if is_sym(x):
        return x
    return fractions.Fraction(x)


def install_calendar(cx, modules=("acnportal.signals.tariffs.tou_tariff", "acnportal.acnsim.interface")):
    for name in modules:
        m = mod(name)
        if hasattr(m, "timedelta"):
            cx.patch(m, "timedelta", SymTimedelta, sym_only=True)
        if name.endswith("tou_tariff"):
            cx.patch(m, "Decimal", sym_decimal, sym_only=True)
