from .core import *  # noqa
from .core import Ctx, Abort, SymReal, SymInt, SymBool, SymComplex, SymNorm, Prop, explore, run_concrete, concretize
from . import env  # noqa
