"""Runner: executes the jobs of one property, decides the verdict, writes evidence, prints the interface lines.

exit 0  every obligation of every explored path discharged (unsat), exploration complete, guards passed
        (or the only violations found are listed in known_findings.json -> KNOWN-FINDING lines)
exit 1  VIOLATION property=<id> replay=<path>   (replay-confirmed on the unpatched code, not a known finding)
exit 3  INCONCLUSIVE property=<id> reason=...   (solver unknown, budget, stub missing, replay/validation mismatch)
"""
import argparse
import importlib
import json
import multiprocessing as mp
import os
import random
import re
import sys
import time
import traceback

ROOT = os.path.dirname(os.path.dirname(os.path.abspath(__file__)))
sys.path.insert(0, ROOT)
REPO = os.path.realpath(os.environ.get("VERIF_REPO", "/repo"))
# evidence and replays of runs against a scratch tree never land in /verif/evidence
OUT = ROOT if REPO == "/repo" else os.environ.get("VERIF_OUT_DIR", "/tmp/verif_scratch_out")

from symx import core  # noqa: E402


class Job:
    def __init__(self, name, harness, params=None, max_paths=20000, timeout=900.0, expect_tags=(), validate=True,
                 functions=(), bounds=None, cost=1.0, approx=False, expect_violation=None):
        self.name, self.harness, self.params = name, harness, params or {}
        self.max_paths, self.timeout = max_paths, timeout
        self.expect_tags = tuple(expect_tags)  # reachability witnesses that must be hit by some path
        self.validate = validate
        self.functions = tuple(functions)
        self.bounds = bounds or {}
        self.cost = cost
        self.approx = approx  # obligations use an over-approximation (exp UF): unreproduced sat -> inconclusive


MAX_SAMPLE_PATHS = 4


def _run_job(args):
    pid, jobname, tier, seed = args
    t0 = time.time()
    try:
        mod = importlib.import_module("props." + pid)
        jobs = {j.name: j for j in mod.jobs(tier)}
        job = jobs[jobname]
        cap = float(os.environ.get("VERIF_JOB_CAP_S", "900" if tier == "quick" else "14400"))
        results, stats = core.explore(job.harness, job.params, max_paths=job.max_paths, timeout=min(job.timeout, cap),
                                      validate=job.validate, seed=seed)
    except BaseException as e:  # noqa
        return dict(job=jobname, crashed=traceback.format_exc()[-3000:])
    out = dict(job=jobname, stats=stats, paths=len(results), tags={}, obligations=0, unsat=0, candidates=[],
               unknowns=[], exceptions=[], aborts=0, stub_missing=[], validated=0, diverged=0, val_failed=[],
               samples=[], labels={}, functions=list(job.functions), bounds=job.bounds, approx=job.approx,
               solver_s=stats["solver_s"], params={k: repr(v)[:80] for k, v in job.params.items()})
    for pr in results:
        for t in pr.tags:
            out["tags"][t] = out["tags"].get(t, 0) + 1
        if pr.status == "abort":
            out["aborts"] += 1
            continue
        if pr.status == "stub_missing":
            out["stub_missing"].append(pr.exc)
            continue
        if pr.validated is True:
            out["validated"] += 1
        elif pr.validated == "diverged":
            out["diverged"] += 1
        elif pr.validated is False:
            out["val_failed"].append(dict(witness=pr.witness, detail=pr.val_detail))
        if pr.status == "exception":
            out["exceptions"].append(dict(exc=pr.exc, witness=pr.witness, validated=pr.validated, detail=pr.val_detail))
        occ = {}
        for o in pr.obligations:
            k = occ.get(o.label, 0)
            occ[o.label] = k + 1
            out["obligations"] += 1
            out["labels"][o.label] = out["labels"].get(o.label, 0) + 1
            if o.status == "unsat":
                out["unsat"] += 1
            elif o.status == "sat":
                out["candidates"].append(dict(label=o.label, occ=k, assignment=o.assignment, detail=o.detail))
            else:
                out["unknowns"].append(dict(label=o.label, witness=pr.witness, detail=o.detail))
        if len(out["samples"]) < MAX_SAMPLE_PATHS and pr.witness is not None:
            out["samples"].append(dict(job=jobname, path_decisions=len(pr.trace), witness_inputs=pr.witness,
                                       obligations=["%s:%s" % (o.label, o.status) for o in pr.obligations][:12],
                                       tags=pr.tags[:8], replayed_on_impl=pr.validated))
    # replay candidates on the unpatched implementation (concrete mode), de-duplicated per label
    confirmed, unreproduced = [], []
    seen = {}
    for cnd in out["candidates"]:
        key = cnd["label"]
        if seen.get(key, 0) >= 3:
            continue
        conc = core.run_concrete(job.harness, cnd["assignment"], job.params)
        hit = None
        k = 0
        for o in conc["obligations"]:
            if o.label == cnd["label"]:
                if k == cnd["occ"]:
                    hit = o
                    break
                k += 1
        rec = dict(label=cnd["label"], assignment=cnd["assignment"], detail=cnd["detail"], job=jobname,
                   concrete_status=conc["status"], concrete_exc=conc["exc"])
        if hit is not None and hit.status == "violated":
            seen[key] = seen.get(key, 0) + 1
            confirmed.append(rec)
        elif conc["status"] == "exception" and hit is None:
            # implementation raised before reaching the obligation: also a concrete failure
            rec["label"] = cnd["label"]
            rec["note"] = "implementation raised during replay"
            seen[key] = seen.get(key, 0) + 1
            confirmed.append(rec)
        else:
            unreproduced.append(rec)
    # an unreproduced candidate is ignored if another candidate of the same label reproduced
    out["confirmed"] = confirmed
    out["unreproduced"] = [u for u in unreproduced if not any(c["label"] == u["label"] for c in confirmed)][:5]
    # uncaught exceptions of repository code on feasible paths: confirmed iff the concrete run raises the same type
    exc_confirmed = []
    exc_seen = set()
    for ex in out["exceptions"]:
        sig = ex["exc"].split(":")[0] + "@" + ex["exc"].split("@")[-1].strip()[:80]
        if sig in exc_seen:
            continue
        exc_seen.add(sig)
        if ex["validated"] is True:
            exc_confirmed.append(dict(label="exception:" + ex["exc"].split(":")[0], assignment=ex["witness"], detail=ex["exc"], job=jobname))
        else:
            out.setdefault("exc_unconfirmed", []).append(ex)
    out["confirmed"].extend(exc_confirmed)
    out["xcheck"] = _second_solver(core.XQUERIES)
    missing = [t for t in job.expect_tags if t not in out["tags"]]
    out["missing_tags"] = missing
    out["wall_s"] = time.time() - t0
    del out["candidates"]
    return out


def _second_solver(queries, tlimit_ms=10000):
    """every exported query was answered unsat by z3; ask the cvc5 binary (different code base) the same question.
    sat -> disagreement (the check becomes inconclusive); unknown / timeout / unsupported construct -> counted, not judged"""
    import shutil
    import subprocess
    import tempfile

    res = dict(solver=None, queries=len(queries), agree=0, unknown=0, disagree=[], secs=0.0)
    exe = shutil.which("cvc5")
    if exe is None or not queries:
        return res
    res["solver"] = "cvc5 (binary on PATH)"
    t0 = time.time()
    for label, txt in queries:
        # 'exp' is a reserved symbol in cvc5: the uninterpreted stand-in gets its own name
        txt = re.sub(r"(?<![A-Za-z0-9_!.])exp(?![A-Za-z0-9_!.])", "uf_exp", txt)
        fd, path = tempfile.mkstemp(suffix=".smt2")
        try:
            with os.fdopen(fd, "w") as f:
                f.write("(set-logic ALL)\n" + txt)
            try:
                r = subprocess.run([exe, "--tlimit=%d" % tlimit_ms, path], capture_output=True, text=True, timeout=tlimit_ms / 1000 + 10)
                lines = [l.strip() for l in r.stdout.splitlines() if l.strip()]
                ans = lines[0] if lines else ""
                if "(error" in r.stdout or "(error" in r.stderr or "rror" in r.stderr:
                    ans = "unknown"
            except subprocess.TimeoutExpired:
                ans = "unknown"
        finally:
            os.unlink(path)
        if ans == "unsat":
            res["agree"] += 1
        elif ans == "sat":
            res["disagree"].append(label)
        else:
            res["unknown"] += 1
    res["secs"] = round(time.time() - t0, 2)
    return res


def _job_to_file(args, path):
    import pickle

    out = _run_job(args)
    with open(path + ".tmp", "wb") as f:
        pickle.dump(out, f)
    os.replace(path + ".tmp", path)


def _run_isolated(args, nproc, limits):
    """one OS process per job, at most nproc at a time, each under a hard wall-clock limit"""
    import pickle
    import tempfile
    import shutil

    ctx = mp.get_context("fork")
    tmp = tempfile.mkdtemp(prefix="symx_")
    pending = list(enumerate(args))
    running = {}
    outs = []
    try:
        while pending or running:
            while pending and len(running) < nproc:
                i, a = pending.pop(0)
                path = os.path.join(tmp, "%d.pkl" % i)
                p = ctx.Process(target=_job_to_file, args=(a, path))
                p.start()
                running[i] = (p, a, path, time.time())
            time.sleep(0.05)
            for i in list(running):
                if i not in running:  # killed by the early stop below
                    continue
                p, a, path, t0 = running[i]
                if not p.is_alive():
                    p.join()
                    if os.path.exists(path):
                        with open(path, "rb") as f:
                            outs.append(pickle.load(f))
                        # seed sweeps only (VERIF_STOP_ON_VIOLATION=1): a replay-confirmed violation ends the run early
                        if os.environ.get("VERIF_STOP_ON_VIOLATION") and outs[-1].get("confirmed"):
                            pending = []
                            for j in list(running):
                                if j != i:
                                    running[j][0].kill()
                                    running[j][0].join()
                                    del running[j]
                    else:
                        outs.append(dict(job=a[1], crashed="worker process died (exit code %s)" % p.exitcode))
                    del running[i]
                elif time.time() - t0 > limits[a[1]]:
                    p.kill()
                    p.join()
                    outs.append(dict(job=a[1], crashed="hard wall-clock limit of %d s exceeded (solver did not return within its timeouts)" % limits[a[1]]))
                    del running[i]
    finally:
        for p, a, path, t0 in running.values():
            p.kill()
        shutil.rmtree(tmp, ignore_errors=True)
    return outs


def load_known():
    p = os.path.join(ROOT, "known_findings.json")
    if not os.path.exists(p):
        return []
    return json.load(open(p))["findings"]


def match_known(known, pid, rec):
    for k in known:
        if k.get("kind") != "finding" or k["property"] != pid:
            continue
        if not re.search(k.get("job", ".*"), rec["job"]):
            continue
        if not re.search(k.get("label", ".*"), rec["label"]):
            continue
        if k.get("detail") and not re.search(k["detail"], rec.get("detail") or ""):
            continue
        return k
    return None


def main(argv=None):
    ap = argparse.ArgumentParser()
    ap.add_argument("pid", nargs="?")
    ap.add_argument("--tier", default=os.environ.get("VERIF_TIER", "quick"))
    ap.add_argument("--replay")
    ap.add_argument("--jobs", type=int, default=int(os.environ.get("VERIF_JOBS", "16")))
    ap.add_argument("--only", help="regex on job names")
    ap.add_argument("--list", action="store_true")
    ap.add_argument("-v", action="store_true")
    a = ap.parse_args(argv)
    seed = int(os.environ.get("VERIF_SEED", "0") or 0)
    if a.replay:
        return replay(a.replay)
    pid = a.pid
    tier = a.tier if a.tier in ("quick", "thorough") else "quick"
    if tier == "thorough":
        # the thorough tier is allowed more solver time per obligation and per branch (inherited by the forked job processes)
        core.BRANCH_TIMEOUT_MS = 6000
    t0 = time.time()
    import acnportal

    if not os.path.realpath(acnportal.__file__).startswith(REPO + os.sep):
        print("INCONCLUSIVE property=%s reason=acnportal imported from %s, not from the tree under test %s" % (pid, acnportal.__file__, REPO))
        return 3
    mod = importlib.import_module("props." + pid)
    jobs = mod.jobs(tier)
    if a.only:
        jobs = [j for j in jobs if re.search(a.only, j.name)]
    if a.list:
        for j in jobs:
            print(j.name, j.params)
        return 0
    order = sorted(jobs, key=lambda j: -j.cost)
    rnd = random.Random(seed)
    # seed only perturbs the order of equally expensive shards
    order.sort(key=lambda j: (-j.cost, rnd.random()))
    args = [(pid, j.name, tier, seed) for j in order]
    nproc = max(1, min(a.jobs, len(args)))
    # hard wall-clock limit per job: the solver's own timeouts are cooperative and can be overrun (big-number arithmetic
    # inside z3's nonlinear core); a job that overruns is killed and reported as inconclusive, never as success
    cap = float(os.environ.get("VERIF_JOB_CAP_S", "900" if tier == "quick" else "14400"))
    limits = {j.name: min(j.timeout, cap) + 60 for j in order}
    if nproc == 1 and os.environ.get("VERIF_INPROCESS"):
        outs = [_run_job(x) for x in args]
    else:
        outs = _run_isolated(args, nproc, limits)
    outs.sort(key=lambda o: o["job"])
    return report(pid, tier, seed, mod, outs, time.time() - t0, verbose=a.v, partial=bool(a.only))


def report(pid, tier, seed, mod, outs, wall, verbose=False, partial=False):
    known = load_known()
    inconclusive = []
    violations, known_hits = [], []
    tot = dict(paths=0, decisions=0, obligations=0, unsat=0, validated=0, diverged=0, checks=0, solver_s=0.0, aborts=0)
    samples, functions, bounds, tags = [], set(), {}, {}
    xtot = dict(solver=None, queries=0, agree=0, unknown=0, disagree=0, secs=0.0)
    for o in outs:
        if "crashed" in o:
            inconclusive.append("job %s crashed: %s" % (o["job"], o["crashed"].strip().splitlines()[-1]))
            if verbose:
                print(o["crashed"])
            continue
        st = o["stats"]
        tot["paths"] += o["paths"]
        tot["decisions"] += st["decisions"]
        tot["obligations"] += o["obligations"]
        tot["unsat"] += o["unsat"]
        tot["validated"] += o["validated"]
        tot["diverged"] += o["diverged"]
        tot["checks"] += st["checks"]
        tot["solver_s"] += st["solver_s"]
        tot["aborts"] += o["aborts"]
        functions.update(o["functions"])
        bounds[o["job"]] = o["bounds"]
        for t, n in o["tags"].items():
            tags[t] = tags.get(t, 0) + n
        samples.extend(o["samples"][:2])
        if st.get("incomplete"):
            inconclusive.append("job %s: exploration budget exhausted after %d paths" % (o["job"], o["paths"]))
        if o["stub_missing"]:
            inconclusive.append("job %s: stub target missing %s" % (o["job"], o["stub_missing"][0]))
        if o["missing_tags"]:
            inconclusive.append("job %s: vacuity guard: branches never reached %s" % (o["job"], o["missing_tags"]))
        if o["paths"] - o["aborts"] <= 0:
            inconclusive.append("job %s: no feasible path (vacuous)" % o["job"])
        for u in o["unknowns"][:3]:
            inconclusive.append("job %s: solver unknown on %s" % (o["job"], u["label"]))
        for u in o["unreproduced"][:3]:
            inconclusive.append("job %s: counterexample for %s did not reproduce on the implementation (%s)" % (o["job"], u["label"], (u.get("detail") or "")[:120]))
        for u in o.get("exc_unconfirmed", [])[:3]:
            inconclusive.append("job %s: exception on symbolic path not reproduced concretely: %s | %s" % (o["job"], u["exc"][:200], (u.get("detail") or "")[:200]))
        xc = o.get("xcheck") or {}
        for k in ("queries", "agree", "unknown"):
            xtot[k] += xc.get(k, 0)
        xtot["secs"] += xc.get("secs", 0.0)
        xtot["solver"] = xc.get("solver") or xtot["solver"]
        for lab in xc.get("disagree", []):
            xtot["disagree"] += 1
            inconclusive.append("job %s: second solver (cvc5) answers sat where z3 answered unsat on %s" % (o["job"], lab))
        for v in o["val_failed"][:3]:
            inconclusive.append("job %s: engine/implementation disagreement: %s" % (o["job"], v["detail"][:300]))
        if o["validated"] == 0 and o["paths"] - o["aborts"] > 0 and o.get("bounds", {}).get("_validate", True):
            inconclusive.append("job %s: no path could be validated against the implementation" % o["job"])
        for c in o["confirmed"]:
            k = match_known(known, pid, c)
            if k is not None:
                known_hits.append((k, c))
            else:
                violations.append(c)
    if not partial:
        for t in getattr(mod, "EXPECT_GLOBAL_TAGS", ()):
            if t not in tags:
                inconclusive.append("vacuity guard: no path of any job reached '%s'" % t)
    # ---- output
    os.makedirs(os.path.join(OUT, "evidence"), exist_ok=True)
    os.makedirs(os.path.join(OUT, "replays", pid), exist_ok=True)
    printed = set()
    for k, c in known_hits:
        if k["id"] in printed:
            continue
        printed.add(k["id"])
        print("KNOWN-FINDING: property=%s %s [%s; job=%s label=%s]" % (pid, k["what"], k["id"], c["job"], c["label"]))
    vio_files = []
    seenv = set()
    for c in violations:
        sig = re.sub(r"\[\d+\]", "[]", c["label"])
        if sig in seenv or len(seenv) >= 12:
            continue
        seenv.add(sig)
        fn = os.path.join(OUT, "replays", pid, re.sub(r"[^A-Za-z0-9_.-]+", "_", "%s__%s" % (c["job"], c["label"]))[:150] + ".json")
        json.dump(dict(property=pid, tier=tier, job=c["job"], label=c["label"], assignment=c["assignment"], detail=c.get("detail"),
                       how="./check --replay " + fn), open(fn, "w"), indent=1)
        vio_files.append(fn)
        print("VIOLATION property=%s replay=%s" % (pid, fn))
        print("  job=%s obligation=%s inputs=%s" % (c["job"], c["label"], json.dumps(c["assignment"])[:400]))
        if c.get("detail"):
            print("  detail: %s" % str(c["detail"])[:300])
    status = 1 if violations else (3 if inconclusive else 0)
    for r in inconclusive[:20]:
        print("INCONCLUSIVE property=%s reason=%s" % (pid, r))
    level = getattr(mod, "LEVEL", "model_checking")
    ev = dict(
        property_id=pid, tier=tier, seed=seed, level=level, tree_under_test=REPO, tree_head=_git_head(REPO),
        coverage=dict(
            states=max(tot["paths"] - tot["aborts"], 0), transitions=max(tot["decisions"], 0) + max(tot["paths"] - tot["aborts"], 0),
            traces_validated_against_impl=tot["validated"],
            samples=samples[:12] or [dict(note="no feasible path")],
            obligations=tot["obligations"], discharged=tot["unsat"],
            exhaustive=not any("budget" in r for r in inconclusive),
            explanation=getattr(mod, "EXPLANATION", ""),
            functions_encoded=sorted(functions), bounds=bounds,
            queries=tot["checks"], solver_s=round(tot["solver_s"], 2),
            second_solver=dict(xtot, secs=round(xtot["secs"], 2), what="a sample of the queries z3 discharged (first of every obligation kind per job) re-asked to cvc5 as SMT-LIB2 text; 'unknown' includes time-outs (10 s) and constructs cvc5 rejects"),
            paths_diverged_in_replay=tot["diverged"],
            reachability_witnesses=tags,
            jobs=[dict(job=o["job"], paths=o.get("paths"), obligations=o.get("obligations"), unsat=o.get("unsat"),
                       wall_s=round(o.get("wall_s", 0), 2), solver_s=round(o.get("solver_s", 0), 2)) for o in outs],
            known_findings_hit=sorted(printed), inconclusive=inconclusive[:20],
            verdict={0: "holds-within-bounds", 1: "violation", 3: "inconclusive"}[status],
        ),
        assumptions=list(getattr(mod, "ASSUMPTIONS", [])),
        wall_s=round(wall, 2),
        violations=len(seenv),
    )
    if ev["coverage"]["states"] < 1:
        ev["coverage"]["states"] = 1
    if ev["coverage"]["transitions"] < 1:
        ev["coverage"]["transitions"] = 1
    if not partial:
        json.dump(ev, open(os.path.join(OUT, "evidence", pid + ".json"), "w"), indent=1, default=str)
    print("%s tier=%s: jobs=%d paths=%d obligations=%d discharged=%d validated_on_impl=%d queries=%d solver_s=%.1f cvc5_recheck=%d/%d(unknown %d) wall_s=%.1f -> %s" % (
        pid, tier, len(outs), tot["paths"], tot["obligations"], tot["unsat"], tot["validated"], tot["checks"], tot["solver_s"], xtot["agree"], xtot["queries"], xtot["unknown"], wall,
        ev["coverage"]["verdict"]))
    if verbose:
        for o in outs:
            if "crashed" in o:
                continue
            print("  job %-40s paths=%-5d obl=%-6d unsat=%-6d val=%d div=%d exc=%d wall=%.1fs tags=%s" % (
                o["job"], o["paths"], o["obligations"], o["unsat"], o["validated"], o["diverged"], len(o["exceptions"]), o["wall_s"], dict(list(o["tags"].items())[:6])))
    return status


def _git_head(repo):
    try:
        import subprocess

        h = subprocess.run(["git", "-C", repo, "rev-parse", "--short", "HEAD"], capture_output=True, text=True).stdout.strip()
        d = subprocess.run(["git", "-C", repo, "status", "--porcelain", "--untracked-files=no"], capture_output=True, text=True).stdout.strip()
        return h + ("+dirty" if d else "")
    except Exception:
        return None


def replay(path):
    rec = json.load(open(path))
    pid = rec["property"]
    mod = importlib.import_module("props." + pid)
    jobs = {j.name: j for t in ("quick", "thorough") for j in mod.jobs(t)}
    job = jobs[rec["job"]]
    conc = core.run_concrete(job.harness, rec["assignment"], job.params)
    print("replay of %s job=%s on the unpatched implementation:" % (pid, rec["job"]))
    print("  inputs:", json.dumps(rec["assignment"]))
    print("  run status:", conc["status"], conc["exc"] or "")
    bad = False
    for o in conc["obligations"]:
        mark = "VIOLATED" if o.status == "violated" else "ok"
        if o.status == "violated":
            bad = True
        print("  obligation %-40s %s %s" % (o.label, mark, (o.detail or "")))
    for k, v in list(conc["observations"].items())[:30]:
        print("  observed %s = %s" % (k, str(v)[:200]))
    if conc["status"] == "exception":
        bad = True
    if bad:
        print("VIOLATION property=%s replay=%s" % (pid, path))
        return 1
    print("not reproduced")
    return 0


if __name__ == "__main__":
    sys.exit(main())
